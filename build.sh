#!/bin/bash
# Rebuilds everything a check needs from /repo's current working tree:
#   1. govirt (overlay generator)          -> .cache/bin/govirt
#   2. overlay of the knut module          -> .cache/overlay/overlay.json
#   3. instrumented harness (tag verif)    -> .cache/bin/kmc
#   4. plain, uninstrumented knut binary   -> .cache/bin/knut-plain
# A content stamp over /repo and /verif sources skips the work when nothing changed.
set -euo pipefail
ROOT="$(cd "$(dirname "${BASH_SOURCE[0]}")" && pwd)"
cd "$ROOT"
export GOFLAGS=-mod=mod GOPROXY=off GOSUMDB=off GOTOOLCHAIN=local
export GOCACHE="${KMC_GOCACHE:-/verif/.cache/go-build}"
export CGO_ENABLED=0
mkdir -p .cache/bin .cache/run
# KMC_REPO: the knut tree to verify (default /repo). A different tree is used only for
# trying seeded changes in a scratch worktree without touching /repo.
REPO="${KMC_REPO:-/repo}"
MODFLAG=""
if [ "$REPO" != "/repo" ]; then
  sed "s#=> /repo#=> $REPO#" harness/go.mod > harness/alt.mod; cp harness/go.sum harness/alt.sum
  MODFLAG="-modfile=alt.mod"
fi
exec 9>.cache/build.lock
flock 9
stamp() {
  { (cd "$REPO" && find . -name '*.go' -not -path './.git/*' -o -name go.mod -o -name go.sum | sort | xargs sha256sum)
    find govirt rt shims harness -type f \( -name '*.go' -o -name go.mod -o -name go.sum \) -not -path 'harness/realdeps/*' | sort | xargs sha256sum
    go version; echo "$REPO"; } | sha256sum | cut -d' ' -f1
}
NEW=$(stamp)
build_race() {
  if [ "${1:-}" = "race" ]; then
    if [ ! -f .cache/race.stamp ] || [ "$(cat .cache/race.stamp)" != "$NEW" ] || [ ! -x .cache/bin/kmc-race ]; then
      rm -f .cache/race.stamp
      (cd harness && CGO_ENABLED=1 go build $MODFLAG -race -tags verif -overlay "$ROOT/.cache/overlay/overlay.json" -o ../.cache/bin/kmc-race ./cmd/kmc)
      echo "$NEW" > .cache/race.stamp
    fi
  fi
}
if [ -f .cache/build.stamp ] && [ "$(cat .cache/build.stamp)" = "$NEW" ] && [ -x .cache/bin/kmc ] && [ -x .cache/bin/knut-plain ] && [ "${KMC_FORCE:-}" = "" ]; then
  build_race "${1:-}"
  exit 0
fi
rm -f .cache/build.stamp
if [ ! -x .cache/bin/govirt ] || [ -n "$(find govirt -newer .cache/bin/govirt -name '*.go' 2>/dev/null)" ]; then
  (cd govirt && go build -o ../.cache/bin/govirt .)
fi
[ -d harness/realdeps/conc ] || ./mkreal.sh
.cache/bin/govirt -repo "$REPO" -rt "$ROOT/rt" -out "$ROOT/.cache/overlay"
(cd harness && go build $MODFLAG -tags verif -overlay "$ROOT/.cache/overlay/overlay.json" -o ../.cache/bin/kmc ./cmd/kmc)
(cd "$REPO" && go build -o "$ROOT/.cache/bin/knut-plain" .)
echo "$NEW" > .cache/build.stamp
build_race "${1:-}"
