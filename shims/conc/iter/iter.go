// Package iter ports conc/iter.Map/ForEach (v0.3.0) onto vsched: the input is
// processed by up to GOMAXPROCS goroutines pulling indices from a shared counter;
// panics are re-raised by the caller.
package iter

import (
	"runtime"

	"github.com/sboehler/knut/lib/verifrt/vsched"
	sync "github.com/sboehler/knut/lib/verifrt/vsync"
	"github.com/sourcegraph/conc/panics"
)

func ForEachIdx[T any](input []T, f func(int, *T)) {
	n := runtime.GOMAXPROCS(0)
	if vsched.Active() {
		n = 3 // bounded worker count under the model checker
	}
	if n > len(input) {
		n = len(input)
	}
	var (
		mu   sync.Mutex
		next int
		wg   sync.WaitGroup
		pc   panics.Catcher
	)
	task := func() {
		for {
			mu.Lock()
			i := next
			next++
			mu.Unlock()
			if i >= len(input) {
				return
			}
			f(i, &input[i])
		}
	}
	wg.Add(n)
	for i := 0; i < n; i++ {
		vsched.Go(func() {
			defer wg.Done()
			pc.Try(task)
		})
	}
	wg.Wait()
	pc.Repanic()
}

func ForEach[T any](input []T, f func(*T)) {
	ForEachIdx(input, func(_ int, t *T) { f(t) })
}

func Map[T, R any](input []T, f func(*T) R) []R {
	res := make([]R, len(input))
	ForEachIdx(input, func(i int, t *T) { res[i] = f(t) })
	return res
}

func MapErr[T, R any](input []T, f func(*T) (R, error)) ([]R, error) {
	var (
		mu   sync.Mutex
		errs []error
	)
	res := Map(input, func(t *T) R {
		r, err := f(t)
		if err != nil {
			mu.Lock()
			errs = append(errs, err)
			mu.Unlock()
		}
		return r
	})
	if len(errs) > 0 {
		return res, errs[0]
	}
	return res, nil
}
