// Package panics is the subset of github.com/sourcegraph/conc/panics used by the
// pool shim: catch the first panic of a set of tasks and re-raise it in Wait.
package panics

import (
	"fmt"
	"runtime/debug"

	"github.com/sboehler/knut/lib/verifrt/vsched"
	sync "github.com/sboehler/knut/lib/verifrt/vsync"
)

type Recovered struct {
	Value any
	Stack []byte
}

func (p *Recovered) String() string {
	return fmt.Sprintf("panic: %v\nstacktrace:\n%s\n", p.Value, p.Stack)
}

func (p *Recovered) AsError() error {
	if p == nil {
		return nil
	}
	return &ErrRecovered{*p}
}

type ErrRecovered struct{ Recovered }

func (p *ErrRecovered) Error() string { return p.String() }

type Catcher struct {
	mu        sync.Mutex
	recovered *Recovered
}

func (c *Catcher) Try(f func()) {
	defer c.tryRecover()
	f()
}

func (c *Catcher) tryRecover() {
	if r := recover(); r != nil {
		if vsched.IsKilled(r) {
			panic(r)
		}
		rec := &Recovered{Value: r, Stack: debug.Stack()}
		c.mu.Lock()
		if c.recovered == nil {
			c.recovered = rec
		}
		c.mu.Unlock()
	}
}

func (c *Catcher) Repanic() {
	if c.recovered != nil {
		panic(c.recovered)
	}
}

func (c *Catcher) Recovered() *Recovered { return c.recovered }
