// Package pool is a port of the parts of github.com/sourcegraph/conc/pool (v0.3.0)
// that knut uses, expressed with vsched/vsync so that every goroutine start, wait and
// context cancellation is a scheduling point owned by the model checker. Without an
// active scheduler the primitives degrade to the native ones.
//
// Semantics kept from conc v0.3.0: every task runs in a goroutine of the pool; a
// panic in a task is caught and re-raised by Wait in the waiting goroutine; ErrorPool
// collects errors under a mutex in completion order; WithFirstError returns the first
// collected; ContextPool derives a cancellable context, cancels it on the first
// error when WithCancelOnError is set (adding the error *before* cancelling) and
// always after Wait. conc reuses idle worker goroutines for later tasks; a fresh
// goroutine per task has the same set of behaviours.
package pool

import (
	"context"
	"errors"

	"github.com/sboehler/knut/lib/verifrt/vsched"
	sync "github.com/sboehler/knut/lib/verifrt/vsync"
	"github.com/sourcegraph/conc/panics"
)

type Pool struct {
	wg      sync.WaitGroup
	pc      panics.Catcher
	limit   int
	running int
	nsem    chan struct{}
	init    bool
}

func New() *Pool { return &Pool{} }

func (p *Pool) panicIfInitialized() {
	if p.init {
		panic("pool can not be reconfigured after calling Go() for the first time")
	}
}

func (p *Pool) WithMaxGoroutines(n int) *Pool {
	p.panicIfInitialized()
	if n < 1 {
		panic("max goroutines in a pool must be greater than zero")
	}
	p.limit = n
	return p
}

func (p *Pool) MaxGoroutines() int { return p.limit }

func (p *Pool) Go(f func()) {
	p.init = true
	if p.limit > 0 {
		if vsched.Active() {
			vsched.Block("wait", "pool limiter", nil, func() bool { return p.running < p.limit }, func() { p.running++ })
		} else {
			if p.nsem == nil {
				p.nsem = make(chan struct{}, p.limit)
			}
			p.nsem <- struct{}{}
		}
	}
	p.wg.Add(1)
	vsched.Go(func() {
		defer p.wg.Done()
		defer func() {
			if p.limit > 0 {
				if vsched.Active() {
					p.running--
				} else {
					<-p.nsem
				}
			}
		}()
		p.pc.Try(f)
	})
}

func (p *Pool) Wait() {
	p.wg.Wait()
	p.pc.Repanic()
}

func (p *Pool) WithErrors() *ErrorPool {
	p.panicIfInitialized()
	return &ErrorPool{pool: p}
}

func (p *Pool) WithContext(ctx context.Context) *ContextPool {
	p.panicIfInitialized()
	ctx, cancel := context.WithCancel(ctx)
	vsched.NewCtx(ctx)
	return &ContextPool{errorPool: ErrorPool{pool: p}, ctx: ctx, cancel: func() { vsched.Cancelling(ctx); cancel() }}
}

type ErrorPool struct {
	pool           *Pool
	onlyFirstError bool
	mu             sync.Mutex
	errs           []error
}

func (p *ErrorPool) Go(f func() error) {
	p.pool.Go(func() { p.addErr(f()) })
}

func (p *ErrorPool) Wait() error {
	p.pool.Wait()
	if len(p.errs) == 0 {
		return nil
	}
	if p.onlyFirstError {
		return p.errs[0]
	}
	return errors.Join(p.errs...)
}

func (p *ErrorPool) WithContext(ctx context.Context) *ContextPool {
	p.pool.panicIfInitialized()
	ctx, cancel := context.WithCancel(ctx)
	vsched.NewCtx(ctx)
	return &ContextPool{errorPool: ErrorPool{pool: p.pool, onlyFirstError: p.onlyFirstError}, ctx: ctx, cancel: func() { vsched.Cancelling(ctx); cancel() }}
}

func (p *ErrorPool) WithFirstError() *ErrorPool {
	p.pool.panicIfInitialized()
	p.onlyFirstError = true
	return p
}

func (p *ErrorPool) WithMaxGoroutines(n int) *ErrorPool {
	p.pool.WithMaxGoroutines(n)
	return p
}

func (p *ErrorPool) addErr(err error) {
	if err != nil {
		p.mu.Lock()
		p.errs = append(p.errs, err)
		p.mu.Unlock()
	}
}

type ContextPool struct {
	errorPool     ErrorPool
	ctx           context.Context
	cancel        context.CancelFunc
	cancelOnError bool
}

func (p *ContextPool) Go(f func(ctx context.Context) error) {
	p.errorPool.Go(func() error {
		if p.cancelOnError {
			defer func() {
				if r := recover(); r != nil {
					if !vsched.IsKilled(r) {
						p.cancel()
					}
					panic(r)
				}
			}()
		}
		err := f(p.ctx)
		if err != nil && p.cancelOnError {
			p.errorPool.addErr(err)
			vsched.Yield() // cancellation is a visible synchronisation step
			p.cancel()
			return nil
		}
		return err
	})
}

func (p *ContextPool) Wait() error {
	defer p.cancel()
	return p.errorPool.Wait()
}

func (p *ContextPool) WithFirstError() *ContextPool {
	p.errorPool.pool.panicIfInitialized()
	p.errorPool.WithFirstError()
	return p
}

func (p *ContextPool) WithCancelOnError() *ContextPool {
	p.errorPool.pool.panicIfInitialized()
	p.cancelOnError = true
	return p
}

func (p *ContextPool) WithMaxGoroutines(n int) *ContextPool {
	p.errorPool.WithMaxGoroutines(n)
	return p
}
