module github.com/sourcegraph/conc

go 1.21

require github.com/sboehler/knut v0.0.0
