// Package errgroup ports golang.org/x/sync/errgroup (v0.3.0: WithContext, Go, Wait,
// SetLimit, TryGo) onto vsched/vsync. First error wins and cancels the derived
// context; Wait cancels it as well. Panics are not caught (as in the original).
package errgroup

import (
	"context"
	"fmt"

	"github.com/sboehler/knut/lib/verifrt/vsched"
	sync "github.com/sboehler/knut/lib/verifrt/vsync"
)

type Group struct {
	cancel  func()
	wg      sync.WaitGroup
	limit   int
	running int
	nsem    chan struct{}
	errOnce sync.Once
	err     error
}

func WithContext(ctx context.Context) (*Group, context.Context) {
	ctx, cancel := context.WithCancel(ctx)
	vsched.NewCtx(ctx)
	return &Group{cancel: func() { vsched.Cancelling(ctx); cancel() }}, ctx
}

func (g *Group) done() {
	if g.limit > 0 {
		if vsched.Active() {
			g.running--
		} else {
			<-g.nsem
		}
	}
	g.wg.Done()
}

func (g *Group) Wait() error {
	g.wg.Wait()
	if g.cancel != nil {
		g.cancel()
	}
	return g.err
}

func (g *Group) Go(f func() error) {
	if g.limit > 0 {
		if vsched.Active() {
			vsched.Block("wait", "errgroup limiter", nil, func() bool { return g.running < g.limit }, func() { g.running++ })
		} else {
			g.nsem <- struct{}{}
		}
	}
	g.wg.Add(1)
	vsched.Go(func() {
		defer g.done()
		if err := f(); err != nil {
			g.errOnce.Do(func() {
				g.err = err
				if g.cancel != nil {
					vsched.Yield() // cancellation is a visible synchronisation step
					g.cancel()
				}
			})
		}
	})
}

func (g *Group) TryGo(f func() error) bool {
	if g.limit > 0 {
		if vsched.Active() {
			if g.running >= g.limit {
				return false
			}
			g.running++
		} else {
			select {
			case g.nsem <- struct{}{}:
			default:
				return false
			}
		}
	}
	g.wg.Add(1)
	vsched.Go(func() {
		defer g.done()
		if err := f(); err != nil {
			g.errOnce.Do(func() {
				g.err = err
				if g.cancel != nil {
					g.cancel()
				}
			})
		}
	})
	return true
}

func (g *Group) SetLimit(n int) {
	if n < 0 {
		g.limit = 0
		return
	}
	if g.running != 0 || len(g.nsem) != 0 {
		panic(fmt.Errorf("errgroup: modify limit while %v goroutines in the group are still active", g.running))
	}
	g.limit = n
	g.nsem = make(chan struct{}, n)
}
