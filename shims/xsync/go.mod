module golang.org/x/sync

go 1.21

require github.com/sboehler/knut v0.0.0
