add("C11", "model_checking",
    "Exhaustive enumeration of every (start,end) day pair of calendar windows containing leap day, year, quarter, month and ISO-week boundaries (incl. start>end) x 6 intervals x 5 --last values; periods compared with an independent calendar reference and Align/Contains probed on every day around the window.",
    "Trusted: Go time package for civil dates; small-scope hypothesis for years outside 2019-2021.",
    "bounded exhaustive input enumeration against a reference model", "DESIGN.md 4 C11")
add("C04", "model_checking",
    "Every sequence (all file orders) of up to L lifecycle operations over a 72-symbol alphabet (L<=2 quick, <=3 thorough) and a 16-symbol core alphabet (L<=3 quick, <=5 thorough) is run through the real check/print/balance commands in-process; exit status, diagnostic and stdout emptiness are compared with an independent lifecycle automaton.",
    "Trusted: reference automaton (ref/lifecycle.go), in-process driver (validated against the plain binary on a subset), overlay rewrites. Journals longer than L and other amounts are outside the bound.",
    "bounded exhaustive operation-sequence enumeration against a reference automaton", "DESIGN.md 4 C04, A.1, A.2")
add("C12", "model_checking",
    "Every sequence of up to n price declarations over 4 commodities (incl. inverse, chained, cyclic, disconnected, zero prices and redeclarations) is inserted into the real price.Prices and normalized under every map iteration order; results are compared with the price specification (direct declaration wins, reciprocal truncated to 8 decimals, chain product truncated per step, unconnected => error) and must be identical across map orders.",
    "Trusted: rational-arithmetic reference (checks/c12.go), vmap order enumeration (all permutations for maps of <= 4 entries). Price values outside the alphabet and graphs with more than 4 commodities are outside the bound.",
    "bounded exhaustive input enumeration x exhaustive map-order exploration against a reference model", "DESIGN.md 4 C12, A.7")
add("C10", "model_checking",
    "Transactions (1-2 bookings, all pairs of account types incl. equity, 7 amounts incl. negative/zero/many decimals) x 6 intervals x every window start<=end over a date alphabet and a 40/100-day run are expanded by the real transaction.Create; every generated transaction must balance, every non-accrual account must receive exactly what the original booked, the accrual account must net to zero, income/expense legs must be dated exactly at the reference period ends and other legs on the original date.",
    "Trusted: calendar reference (C11), hand-built syntax tree for the library entry. Amounts and windows outside the alphabet are not covered.",
    "bounded exhaustive input enumeration with conservation invariants and a calendar reference", "DESIGN.md 4 C10, A.9")
add("C02", "model_checking",
    "Every journal of up to 2 body transactions over the journal alphabet is run through the real `balance` command in-process for every window/interval/--last/--diff/--close combination over the date alphabet and for a product of mapping rules (level 0, suffix, several rules), account/commodity filters and remaps; the text report is parsed back into an account tree and every cell, total and Delta line is compared with an independent rational-arithmetic ledger.",
    "Trusted: reference ledger (ref/ledger.go), table reader, in-process driver (validated against the plain binary on a subset), overlay rewrites. Regexes, amounts and journal lengths beyond the alphabet are outside the bound.",
    "bounded exhaustive input x configuration enumeration against a reference model", "DESIGN.md 4 C02, A.3-A.6")
add("C01", "model_checking",
    "Every journal of up to N body directives over a valued alphabet (multi-commodity positions, liabilities, sales to zero, accruals, negative amounts, direct/inverse/chained prices) is run through the real `balance` command for valuation in {none, CHF, USD} and all window/interval/--last/--diff/--close combinations (text and CSV); the invariant is that every cell of every Delta row is zero. Failing valued runs must fail exactly when the reference says a price is missing.",
    "Trusted: table readers, in-process driver (validated against the plain binary on a subset), overlay rewrites. Amounts/prices outside the alphabet and journals longer than N are outside the bound.",
    "bounded exhaustive input x configuration enumeration with a conservation invariant", "DESIGN.md 4 C01")
add("C03", "model_checking",
    "Every journal of up to N directives over positions in three foreign commodities and six price declarations (sparse, inverse, chained, redeclared) on three dates is valued by the real `balance -v` for two valuation commodities and several windows/intervals; each asset/liability cell is compared with quantity x latest price <= column date (reference prices from the C12 specification), mirror income accounts with the accumulated gain, other rows with booking-day values, all within one 8-decimal truncation per arithmetic step; a missing price must give a clean failure.",
    "Trusted: reference prices/valuation (ref/valuation.go), table reader, in-process driver (validated on a subset against the plain binary). --from is not exercised (see assumptions).",
    "bounded exhaustive input x configuration enumeration against a reference model", "DESIGN.md 4 C03, A.7, A.8")
add("C09", "model_checking",
    "Every accepted journal of up to N body directives over an alphabet with trailing-zero, negative, zero and 8-decimal amounts, accruals, @performance, multi-balance assertions, Unicode names and multi-line descriptions is printed by the real `print`; the printed text must pass `check`, printing it again must reproduce it byte for byte, and six `balance` flag sets (unvalued/valued, months, diff, no-close) must give byte-identical reports on original and printed journal.",
    "Trusted: in-process driver, overlay (canonical map order makes byte comparison meaningful). Journals longer than N are outside the bound.",
    "bounded exhaustive input enumeration with fixpoint and differential oracles", "DESIGN.md 4 C09")
add("C07", "model_checking",
    "The real parser is run on every string of up to n symbols over 24 byte classes (invalid UTF-8, CR/LF, multi-byte, every punctuation the grammar knows), every sequence of up to m tokens over 29 tokens incl. 100000-character tokens, and every byte prefix / single-field substitution of a corpus of valid files; it must never panic, errors must carry a range inside the input and render, and on success a reflective walk checks every range (inside text, inside parent, increasing, disjoint, Extract = slice) and that the gaps are only blank/comment lines.",
    "Trusted: the reflective walker over directive structs (follows every field of type Range). Small-scope hypothesis for longer inputs.",
    "bounded exhaustive input enumeration with structural invariants", "DESIGN.md 4 C07")
add("C08", "model_checking",
    "Every sequence of up to N directive shapes is rendered in every layout of a layout alphabet (separators, CRLF, trailing blanks, missing final newline, comment/heading/blank lines between directives, annotation order) and formatted by the real formatter; the result must parse to a tree with identical leaf texts, the concatenated inter-directive text must be byte-identical, and formatting again must change nothing; parseable C07 token strings are included, and the `format` command is run on real files to check that unparseable files stay untouched.",
    "Trusted: reflective leaf-text extraction. Layouts outside the alphabet are not covered.",
    "bounded exhaustive input enumeration with re-parse, gap-equality and idempotence oracles", "DESIGN.md 4 C08")
add("C17", "model_checking",
    "Tables are built through the real table API for every ordered pair and triple of 39 signed amounts (magnitudes 1e-8 to 1e15, every rounding boundary) x 5 digit settings x --thousands x ASCII/umlaut/CJK/long names and rendered by the real text and CSV renderers; a geometry-checking reader verifies equal line width and aligned separators, every numeric cell is compared with a big-rational half-away-from-zero reference with exact comma grouping, CSV cells exactly; the same amounts are placed in journals and `balance` text and --csv outputs compared row by row.",
    "Trusted: reference formatter (checks/c17.go), text table reader. Display width in terminal cells is not modelled (runes, as the statement's mechanism says).",
    "bounded exhaustive input x configuration enumeration against a reference formatter", "DESIGN.md 4 C17, A.10")
