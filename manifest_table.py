add("C11", "model_checking",
    "Exhaustive enumeration of every (start,end) day pair of calendar windows containing leap day, year, quarter, month and ISO-week boundaries (incl. start>end) x 6 intervals x 5 --last values; periods compared with an independent calendar reference and Align/Contains probed on every day around the window.",
    "Trusted: Go time package for civil dates; small-scope hypothesis for years outside 2019-2021.",
    "bounded exhaustive input enumeration against a reference model", "DESIGN.md 4 C11")
