add("C11", "model_checking",
    "Exhaustive enumeration of every (start,end) day pair of calendar windows containing leap day, year, quarter, month and ISO-week boundaries (incl. start>end) x 6 intervals x 5 --last values; periods compared with an independent calendar reference and Align/Contains probed on every day around the window.",
    "Trusted: Go time package for civil dates; small-scope hypothesis for years outside 2019-2021.",
    "bounded exhaustive input enumeration against a reference model", "DESIGN.md 4 C11")
add("C04", "model_checking",
    "Every sequence (all file orders) of up to L lifecycle operations over a 72-symbol alphabet (L<=2 quick, <=3 thorough) and a 16-symbol core alphabet (L<=3 quick, <=5 thorough) is run through the real check/print/balance commands in-process; exit status, diagnostic and stdout emptiness are compared with an independent lifecycle automaton.",
    "Trusted: reference automaton (ref/lifecycle.go), in-process driver (validated against the plain binary on a subset), overlay rewrites. Journals longer than L and other amounts are outside the bound.",
    "bounded exhaustive operation-sequence enumeration against a reference automaton", "DESIGN.md 4 C04, A.1, A.2")
