package checks

import (
	"fmt"

	"kmc/core"
	"kmc/jr"
)

// Shared journal alphabet (DESIGN 3.6).

var (
	accChecking = "Assets:Bank:Checking"
	accSavings  = "Assets:Bank:Savings"
	accCash     = "Assets:Portfolio:Broker:Cash"
	accBaenk    = "Assets:Bänk"
	accBank     = "Assets:Bank" // carries postings itself AND is the parent of Checking/Savings
	accCard     = "Liabilities:Card"
	accEquity   = "Equity:Equity"
	accOpening  = "Equity:Opening"
	accSalary   = "Income:Salary"
	accIncBank  = "Income:Bank:Checking" // collides with the valuation account of accChecking
	accFood     = "Expenses:Food"
	accRent     = "Expenses:Rent:Flat"

	allAccounts = []string{accBank, accChecking, accSavings, accCash, accBaenk, accCard, accEquity, accOpening, accSalary, accIncBank, accFood, accRent}

	// dates: Thursday, month end, month start, leap day (Saturday, month end), Monday, quarter end, quarter start
	alphaDates = []string{"2020-01-30", "2020-01-31", "2020-02-01", "2020-02-29", "2020-03-02", "2020-03-31", "2020-04-01"}
)

const (
	openDate         = "2019-12-31"
	openDateChildren = "2020-01-01"
)

// opensPrefix opens every account of the alphabet before the first body date.
// The two sub-accounts of Assets:Bank are written first although they are opened a day
// later than their parent: in source order the children are seen before the parent, in
// date order (and hence in a printed journal) after it.
func opensPrefix() []jr.Dir {
	var ds []jr.Dir
	for _, a := range []string{accChecking, accSavings} {
		ds = append(ds, jr.O(openDateChildren, a))
	}
	for _, a := range allAccounts {
		if a != accChecking && a != accSavings {
			ds = append(ds, jr.O(openDate, a))
		}
	}
	return ds
}

// trxTemplates returns the unvalued body transactions for one date.
func trxTemplates(date string, full bool) []jr.Dir {
	ts := []jr.Dir{
		jr.T(date, "salary", jr.B(accSalary, accChecking, "100", "CHF")),
		jr.T(date, "food", jr.B(accChecking, accFood, "1.50", "CHF")),
		jr.T(date, "rent", jr.B(accChecking, accRent, "33.33333333", "CHF")),
		jr.T(date, "card", jr.B(accCard, accFood, "0.5", "USD")),
		jr.T(date, "transfer", jr.B(accChecking, accSavings, "-1", "CHF")),
		jr.T(date, "opening", jr.B(accOpening, accCash, "1000000.000001", "CHF")),
		jr.T(date, "trade", jr.B(accChecking, accCash, "100", "CHF"), jr.B(accCash, accChecking, "110", "USD")),
		{Kind: jr.Trx, Date: date, Desc: "accrued", Books: []jr.Booking{jr.B(accChecking, accRent, "100", "CHF")},
			Accrue: &jr.Accrual{Interval: "monthly", Start: "2020-01-30", End: "2020-03-31", Acc: accSavings}},
	}
	if full {
		ts = append(ts,
			jr.T(date, "zero", jr.B(accChecking, accFood, "0", "CHF")),
			jr.T(date, "Bänk — ☕", jr.B(accBaenk, accFood, "1", "EUR")),
			jr.T(date, "bonus", jr.B(accIncBank, accChecking, "-0.5", "CHF")),
			jr.T(date, "inner", jr.B(accOpening, accBank, "5", "CHF")),
			jr.Dir{Kind: jr.Trx, Date: date, Desc: "perf", HasPerf: true, Perf: []string{"USD"}, Books: []jr.Booking{jr.B(accSalary, accCash, "7", "USD")}},
		)
	}
	return ts
}

// bodyAlphabet: the symbols from which journal bodies are built.
func bodyAlphabet(dates []string, full bool) []jr.Dir {
	var a []jr.Dir
	for _, d := range dates {
		a = append(a, trxTemplates(d, full)...)
	}
	return a
}

// forEachSeq enumerates every sequence of length <= maxN over alpha (depth first,
// shortest prefix first) and maintains the operation-tree counters.
func forEachSeq(e *core.Env, alpha []jr.Dir, maxN int, f func(seq []jr.Dir)) {
	var seq []jr.Dir
	var rec func(depth int)
	rec = func(depth int) {
		if e.Expired() {
			return
		}
		if e.Shard == 0 {
			e.Count("states")
			if depth > 0 {
				e.Count("transitions")
			}
		}
		f(seq)
		if depth == maxN {
			return
		}
		for _, s := range alpha {
			seq = append(seq, s)
			rec(depth + 1)
			seq = seq[:len(seq)-1]
		}
	}
	rec(0)
}

func cloneDirs(ds []jr.Dir) []jr.Dir { return append([]jr.Dir(nil), ds...) }

// positionChains enumerates every life history of <= maxN steps of two foreign positions
// (AAPL on the broker account, USD on the checking account): buy, sell out completely
// (the exact quantity held), a new price for either commodity, and an unrelated CHF
// booking, one step per consecutive day after the initial prices of 2020-01-01. This
// reaches the states "closed and reopened", "an earlier position sold out while a later
// one is open" and "portfolio completely empty" that short free-form journals miss.
func positionChains(e *core.Env, maxN int, f func(seq []jr.Dir)) {
	init := []jr.Dir{jr.P("2020-01-01", "AAPL", "100", "USD"), jr.P("2020-01-01", "USD", "0.9", "CHF")}
	pricesA := []string{"110", "90", "125.5", "80", "101", "99"}
	pricesU := []string{"0.95", "0.85", "1.05", "0.8", "0.91", "0.89"}
	var rec func(seq []jr.Dir, depth, qa, qu int)
	rec = func(seq []jr.Dir, depth, qa, qu int) {
		if e.Expired() {
			return
		}
		if e.Shard == 0 {
			e.Count("states")
			if depth > 0 {
				e.Count("transitions")
			}
		}
		f(seq)
		if depth == maxN {
			return
		}
		date := fmt.Sprintf("2020-01-%02d", depth+2)
		next := func(d jr.Dir, qa, qu int) { rec(append(cloneDirs(seq), d), depth+1, qa, qu) }
		next(jr.T(date, "buy aapl", jr.B(accOpening, accCash, "3", "AAPL")), qa+3, qu)
		if qa > 0 {
			next(jr.T(date, "sell all aapl", jr.B(accCash, accOpening, fmt.Sprint(qa), "AAPL")), 0, qu)
		}
		next(jr.T(date, "buy usd", jr.B(accOpening, accChecking, "100", "USD")), qa, qu+100)
		if qu > 0 {
			next(jr.T(date, "sell all usd", jr.B(accChecking, accOpening, fmt.Sprint(qu), "USD")), qa, 0)
		}
		next(jr.P(date, "AAPL", pricesA[depth%len(pricesA)], "USD"), qa, qu)
		next(jr.P(date, "USD", pricesU[depth%len(pricesU)], "CHF"), qa, qu)
		next(jr.T(date, "chf", jr.B(accOpening, accChecking, "10", "CHF")), qa, qu)
		// a transfer between two asset accounts and a second commodity on the receiving one
		// whose value (100 USD at the initial 0.9) equals the transfer: totals pass through zero
		next(jr.T(date, "transfer 90 chf", jr.B(accChecking, accCash, "90", "CHF")), qa, qu)
		next(jr.T(date, "usd on the broker account", jr.B(accOpening, accCash, "100", "USD")), qa, qu)
	}
	rec(init, 0, 0, 0)
}
