package checks

import (
	"encoding/json"
	"fmt"
	"math/big"
	"sort"
	"strings"
	"time"

	"kmc/core"
	"kmc/jr"
	"kmc/ref"
)

// C02 — the unvalued balance report equals an independent ledger computation.

type balCase struct {
	Body []jr.Dir
	Cfg  ref.BalCfg
}

func cfgFeatures(c ref.BalCfg) string {
	var fs []string
	if len(c.Maps) > 0 {
		fs = append(fs, "map")
	}
	if len(c.Remap) > 0 {
		fs = append(fs, "remap")
	}
	if len(c.AccRx) > 0 || len(c.ComRx) > 0 {
		fs = append(fs, "filter")
	}
	if c.Diff {
		fs = append(fs, "diff")
	}
	if c.Last != 0 {
		fs = append(fs, "last")
	}
	if c.Interval != ref.Once {
		fs = append(fs, "periods")
	}
	if !c.NoClose {
		fs = append(fs, "close")
	}
	return strings.Join(fs, "+")
}

func hasAccrual(ds []jr.Dir) bool {
	for _, d := range ds {
		if d.Accrue != nil {
			return true
		}
	}
	return false
}

// compareBalance compares a parsed report with the reference. It returns a
// violation key suffix and a detail, or "".
func compareBalance(tbl *ref.BalanceTable, ex *ref.Expected, c ref.BalCfg) (string, string) {
	if fmt.Sprint(tbl.Dates) != fmt.Sprint(ex.Dates) {
		return "columns", fmt.Sprintf("column dates %v, want %v", tbl.Dates, ex.Dates)
	}
	if !tbl.HasComm {
		return "layout", "unvalued report without a commodity column"
	}
	closing := !c.NoClose
	type ac struct{ acc, com string }
	seen := map[ac]bool{}
	eqTotal := map[string][]*big.Rat{} // com -> display sum of equity rows (when closing)
	sumAL, sumEIE := map[string][]*big.Rat{}, map[string][]*big.Rat{}
	addv := func(m map[string][]*big.Rat, com string, v []*big.Rat) {
		if m[com] == nil {
			m[com] = make([]*big.Rat, len(ex.Dates))
			for i := range m[com] {
				m[com][i] = new(big.Rat)
			}
		}
		for i := range v {
			m[com][i].Add(m[com][i], v[i])
		}
	}
	parse := func(r ref.BalanceRow) ([]*big.Rat, error) {
		vs := make([]*big.Rat, len(r.Cells))
		for i, cell := range r.Cells {
			v, err := ref.ParseNum(cell)
			if err != nil {
				return nil, err
			}
			vs[i] = v
		}
		return vs, nil
	}
	cmp := func(what string, got []*big.Rat, want []*big.Rat) string {
		for i := range want {
			g := new(big.Rat)
			if i < len(got) {
				g = got[i]
			}
			if g.Cmp(want[i]) != 0 {
				return fmt.Sprintf("%s column %s: report shows %s, ledger says %s", what, ex.Dates[i], ref.Str(g), ref.Str(want[i]))
			}
		}
		return ""
	}
	for _, acc := range tbl.Accounts {
		if !ex.Rows[acc] {
			return "unexpected-row", fmt.Sprintf("row %s appears but no booking inside the window maps to it or below it", acc)
		}
	}
	for _, r := range tbl.Rows {
		got, err := parse(r)
		if err != nil {
			return "malformed-cell", err.Error()
		}
		switch r.Section {
		case "AL", "EIE":
			if r.Comm == "" {
				for _, g := range got {
					if g.Sign() != 0 {
						return "layout", "amount without commodity in row " + r.Path
					}
				}
				continue
			}
			neg := r.Section == "EIE"
			seen[ac{r.Path, r.Comm}] = true
			if r.Section == "AL" {
				addv(sumAL, r.Comm, got)
			} else {
				addv(sumEIE, r.Comm, got)
			}
			if closing && jr.AccountType(r.Path) == "Equity" {
				addv(eqTotal, r.Comm, got)
				continue
			}
			want := ex.Display(ex.Raw, r.Path, r.Comm, c.Diff, neg)
			if msg := cmp(fmt.Sprintf("%s %s", r.Path, r.Comm), got, want); msg != "" {
				return "cell:" + jr.AccountType(r.Path), msg
			}
		}
	}
	// every expected non-zero position must be shown
	expEq := map[string][]*big.Rat{}
	wantAL, wantEIE, wantDelta := map[string][]*big.Rat{}, map[string][]*big.Rat{}, map[string][]*big.Rat{}
	keys := map[ac]bool{}
	for k := range ex.Raw {
		keys[ac{k.Acc, k.Com}] = true
	}
	var ks []ac
	for k := range keys {
		ks = append(ks, k)
	}
	sort.Slice(ks, func(i, j int) bool { return ks[i].acc+ks[i].com < ks[j].acc+ks[j].com })
	for _, k := range ks {
		neg := !jr.IsAL(k.acc)
		disp := ex.Display(ex.Raw, k.acc, k.com, c.Diff, neg)
		nonzero := false
		for _, v := range disp {
			nonzero = nonzero || v.Sign() != 0
		}
		if neg {
			addv(wantEIE, k.com, disp)
		} else {
			addv(wantAL, k.com, disp)
		}
		addv(wantDelta, k.com, ex.Display(ex.Raw, k.acc, k.com, c.Diff, false))
		if closing && jr.AccountType(k.acc) == "Equity" {
			addv(expEq, k.com, disp)
			continue
		}
		if nonzero && !seen[k] {
			return "missing-row:" + jr.AccountType(k.acc), fmt.Sprintf("no row for %s %s although the ledger has %v", k.acc, k.com, ratStrs(disp))
		}
	}
	if closing {
		coms := map[string]bool{}
		for c := range expEq {
			coms[c] = true
		}
		for c := range eqTotal {
			coms[c] = true
		}
		for com := range coms {
			want := expEq[com]
			if want == nil {
				want = make([]*big.Rat, len(ex.Dates))
				for i := range want {
					want[i] = new(big.Rat)
				}
			}
			if msg := cmp("sum of Equity rows "+com, eqTotal[com], want); msg != "" {
				return "cell:Equity-total", msg
			}
		}
	}
	// totals and delta rows
	for _, r := range tbl.Rows {
		var want map[string][]*big.Rat
		switch r.Section {
		case "TotalAL":
			want = wantAL
		case "TotalEIE":
			want = wantEIE
		case "Delta":
			want = wantDelta
		default:
			continue
		}
		got, _ := parse(r)
		w := want[r.Comm]
		if w == nil {
			w = make([]*big.Rat, len(ex.Dates))
			for i := range w {
				w[i] = new(big.Rat)
			}
		}
		if msg := cmp(r.Section+" "+r.Comm, got, w); msg != "" {
			return "total:" + r.Section, msg
		}
		delete(want, r.Comm)
	}
	for name, m := range map[string]map[string][]*big.Rat{"TotalAL": wantAL, "TotalEIE": wantEIE, "Delta": wantDelta} {
		for com, w := range m {
			for _, v := range w {
				if v.Sign() != 0 {
					return "total-missing:" + name, fmt.Sprintf("%s has no line for %s but the ledger total is %v", name, com, ratStrs(w))
				}
			}
		}
	}
	return "", ""
}

func ratStrs(vs []*big.Rat) []string {
	res := make([]string, len(vs))
	for i, v := range vs {
		res[i] = ref.Str(v)
	}
	return res
}

// c02Prefix: the opens in front of every journal (the first-day-of-the-calendar plan swaps it).
var c02Prefix = opensPrefix

func c02One(drv *core.Driver, body []jr.Dir, cfg ref.BalCfg) (string, string, *core.Outcome) {
	all := append(c02Prefix(), body...)
	text := jr.RenderAll(all)
	drv.Files(map[string]string{"j.knut": text})
	args := append([]string{"balance", "--color=false", "--digits", "8"}, cfg.Args()...)
	args = append(args, "j.knut")
	out := drv.Run(nil, args...)
	ctx := func() string {
		return fmt.Sprintf("\ncommand: knut %s\njournal body:\n%s", strings.Join(args, " "), jr.RenderAll(body))
	}
	if ab := out.Abnormal(); ab != "" {
		return "C02:abnormal", ab + ctx(), out
	}
	if out.Exit != 0 {
		return "C02:unexpected-failure:" + cfgFeatures(cfg), "exit " + fmt.Sprint(out.Exit) + ": " + out.Stderr + ctx(), out
	}
	tbl, err := ref.ReadBalanceText(out.Stdout)
	if err != nil {
		return "C02:malformed-table", err.Error() + "\n" + out.Stdout + ctx(), out
	}
	ex := ref.NewLedger(all).Balance(cfg)
	if k, d := compareBalance(tbl, ex, cfg); k != "" {
		key := "C02:" + k + ":" + cfgFeatures(cfg)
		if hasAccrual(body) {
			key += ":accrual"
		}
		return key, d + ctx() + "\nreport:\n" + out.Stdout, out
	}
	return "", "", out
}

func windowCfgs(dates []string, full bool) []ref.BalCfg {
	var cs []ref.BalCfg
	ds := append([]string{""}, dates...)
	lasts := []int{0, 1, 2}
	for _, f := range ds {
		for _, t := range ds {
			for iv := ref.Once; iv <= ref.Yearly; iv++ {
				for _, last := range lasts {
					if iv == ref.Once && last != 0 {
						continue
					}
					for _, diff := range []bool{false, true} {
						for _, nc := range []bool{false, true} {
							if !full && (diff && nc) && f != "" {
								continue
							}
							cs = append(cs, ref.BalCfg{From: f, To: t, Interval: iv, Last: last, Diff: diff, NoClose: nc})
						}
					}
				}
			}
		}
	}
	return cs
}

func mappingCfgs() []ref.BalCfg {
	rule := func(l, s int, rx string) ref.MapRule {
		return ref.MapRule{Level: l, Suffix: s, Regex: rx, HasRegex: rx != ""}
	}
	maps := [][]ref.MapRule{
		nil,
		{rule(0, 0, "Expenses")},
		{rule(1, 0, "Assets")},
		{rule(2, 0, ".")},
		{rule(1, 1, "Assets")},
		{rule(1, 2, "Assets")},
		{rule(2, 1, "Bank")},
		{rule(1, 0, "Rent"), rule(2, 0, "Expenses")},
		{rule(1, 0, "")},
		{rule(3, 1, "")},
	}
	accs := [][]string{nil, {"Assets"}, {"Bank"}, {"Food$"}, {"Assets", "Income"}}
	coms := [][]string{nil, {"CHF"}}
	remaps := [][]string{nil, {"Liabilities"}, {"Bank", "Salary"}, {"Opening|Checking"}} // the last one also matches an equity account (which has no counterpart type)
	bases := []ref.BalCfg{
		{},
		{Interval: ref.Monthly, NoClose: true},
		{Interval: ref.Monthly, Diff: true},
		{Interval: ref.Weekly, Last: 2, From: "2020-01-31"},
	}
	var cs []ref.BalCfg
	for _, b := range bases {
		for _, m := range maps {
			for _, a := range accs {
				for _, c := range coms {
					for _, r := range remaps {
						cfg := b
						cfg.Maps, cfg.AccRx, cfg.ComRx, cfg.Remap = m, a, c, r
						cs = append(cs, cfg)
					}
				}
			}
		}
	}
	return cs
}

func c02Run(e *core.Env) {
	e.ReserveTail()
	drv := e.Driver()
	var alpha []jr.Dir
	var cfgs []ref.BalCfg
	maxN := 2
	if e.Thorough() {
		alpha = bodyAlphabet(alphaDates, true)
		cfgs = append(windowCfgs([]string{"2020-01-30", "2020-01-31", "2020-02-29", "2020-03-02", "2020-03-31"}, true), mappingCfgs()...)
	} else {
		alpha = bodyAlphabet([]string{"2020-01-30", "2020-02-29", "2020-03-31"}, false)
		cfgs = append(windowCfgs([]string{"2020-01-31", "2020-02-29", "2020-03-02"}, false), mappingCfgs()...)
	}
	e.Note("journal alphabet %d symbols, depth <= %d, %d flag sets per journal", len(alpha), maxN, len(cfgs))
	conform := int64(4001)
	if e.Thorough() {
		conform = 50021
	}
	forEachSeq(e, alpha, maxN, func(seq []jr.Dir) {
		for ci, cfg := range cfgs {
			if !e.Take() {
				continue
			}
			key, detail, out := c02One(drv, seq, cfg)
			e.Count("evaluations")
			if len(seq) >= 2 {
				e.Count("distinct_nontrivial")
			}
			n := e.CaseNo()
			if n%200003 == 0 {
				e.Sample(map[string]any{"journal": jr.ShortAll(seq), "flags": cfg.Args()})
			}
			if ci%7 == 0 {
				e.Distinct(out.Stdout)
			}
			if key != "" {
				cs := balCase{Body: cloneDirs(seq), Cfg: cfg}
				e.Violation(key, detail, cs, func() bool {
					k, _, _ := c02One(drv, cs.Body, cs.Cfg)
					return k == key
				})
				continue
			}
			if n%conform == 0 {
				args := append([]string{"balance", "--color=false", "--digits", "8"}, cfg.Args()...)
				b := drv.RunBinary(append(args, "j.knut")...)
				if b.Exit != out.Exit || !sameTableUpToRowOrder(b.Stdout, out.Stdout) {
					e.EngineError("binary mismatch for %v:\n%s\nvs\n%s", args, b.Stdout, out.Stdout)
				} else {
					e.Count("traces_validated_against_impl")
				}
			}
		}
	})
	e.SetBound("journal_depth", maxN)
	e.BeginTail()
	// journals that begin on the first day of the calendar (0001-01-01 is also Go's zero time)
	c02Prefix = func() []jr.Dir {
		var ds []jr.Dir
		for _, a := range allAccounts {
			ds = append(ds, jr.O("0001-01-01", a))
		}
		return ds
	}
	ep := []string{"0001-01-01", "0001-01-02", "0001-02-03"}
	epAlpha, epCfgs := bodyAlphabet(ep, false), windowCfgs(ep[:2], false)
	var epA []jr.Dir
	for _, d := range epAlpha {
		if d.Accrue == nil {
			epA = append(epA, d)
		}
	}
	e.Note("first day of the calendar: journal alphabet %d symbols, depth <= 2, %d flag sets per journal", len(epA), len(epCfgs))
	forEachSeq(e, epA, 2, func(seq []jr.Dir) {
		for _, cfg := range epCfgs {
			if !e.Take() {
				continue
			}
			key, detail, _ := c02One(drv, seq, cfg)
			e.Count("evaluations")
			if key != "" {
				e.Violation(key+":year-one", detail, balCase{Body: cloneDirs(seq), Cfg: cfg}, nil)
			}
		}
	})
	c02Prefix = opensPrefix
	// the same around the end of a leap year (31 Dec 2020 is day 366; week, month, quarter
	// and year change between two consecutive days)
	ye := []string{"2020-12-31", "2021-01-01"}
	yeAlpha, yeCfgs := bodyAlphabet(ye, false), windowCfgs(ye, false)
	e.Note("year end: journal alphabet %d symbols, depth <= 2, %d flag sets per journal", len(yeAlpha), len(yeCfgs))
	forEachSeq(e, yeAlpha, 2, func(seq []jr.Dir) {
		for _, cfg := range yeCfgs {
			if !e.Take() {
				continue
			}
			key, detail, _ := c02One(drv, seq, cfg)
			e.Count("evaluations")
			if key != "" {
				cs := balCase{Body: cloneDirs(seq), Cfg: cfg}
				e.Violation(key, detail, cs, func() bool {
					k, _, _ := c02One(drv, cs.Body, cs.Cfg)
					return k == key
				})
			}
		}
	})
	if e.Take() {
		// the same cells when the directives are spread over three files, under every loader schedule
		root, a, b := multiFileJournal()
		body := append(append(append([]jr.Dir(nil), root[len(opensPrefix()):]...), a...), b...)
		for _, cfg := range []ref.BalCfg{{}, {Interval: ref.Monthly, Diff: true}} {
			if key, detail, _ := c02One(drv, body, cfg); key != "" {
				e.Violation(key, detail, balCase{body, cfg}, nil)
				continue
			}
			multiFileSchedules(e, drv, "C02", "balance"+strings.Join(cfg.Args(), ""), root, a, b, append(append([]string{"balance", "--color=false", "--digits", "8"}, cfg.Args()...), "root.knut"))
		}
	}
}

// sameTableUpToRowOrder compares two renderings line-multiset-wise: the real binary
// iterates maps in random order, so sibling rows with equal weights may be permuted
// (that is C06's subject, not the driver's).
func sameTableUpToRowOrder(a, b string) bool {
	la, lb := strings.Split(a, "\n"), strings.Split(b, "\n")
	sort.Strings(la)
	sort.Strings(lb)
	return strings.Join(la, "\n") == strings.Join(lb, "\n")
}

func c02Replay(e *core.Env, data json.RawMessage) (bool, string) {
	if h, v, d := replayMultiFile(e, data); h {
		return v, d
	}
	var cs balCase
	if err := json.Unmarshal(data, &cs); err != nil {
		return false, err.Error()
	}
	key, detail, _ := c02One(e.Driver(), cs.Body, cs.Cfg)
	return key != "", key + "\n" + detail
}

func init() {
	core.Register(&core.Check{
		ID: "C02", Level: "model_checking", Run: c02Run, Replay: c02Replay,
		Added:       "year-end plan (2020-12-31 / 2021-01-01); a --remap that also matches an equity account; a fixed journal spread over three files under every loader schedule within the deviation bound",
		QuickBudget: 240 * time.Second, ThoroughBudget: 14 * time.Minute,
		Rule: "every sequence of <= 2 body transactions over the journal alphabet (salary, food, rent with 8 decimals, liability in USD, negative transfer, 4-segment account, two-commodity trade, monthly accrual; thorough adds zero amounts, Unicode, income collision, @performance and all 7 dates) x " +
			"{all --from/--to over the date alphabet x 6 intervals x --last 0/1/2 x --diff x --close} + {10 mapping rule sets x 5 account filters x 2 commodity filters x 3 remaps x 4 window configurations}; " +
			"every report is parsed (tree from indentation) and every cell compared with the reference ledger; non-trivial = two body transactions",
		Assumptions: []string{"with --close the split between equity accounts is not fixed by the statement: the sum of the Equity rows is compared (DESIGN A.4)",
			"accrual parts follow knut's documented split (quotient truncated to one decimal, remainder on the first part)",
			"text report read with --digits 8 (amounts of the alphabet have <= 8 decimals)"},
	})
}
