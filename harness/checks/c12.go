package checks

import (
	"encoding/json"
	"fmt"
	"math/big"
	"sort"
	"strings"
	"time"

	"kmc/core"
	"kmc/jr"
	"kmc/ref"

	"github.com/sboehler/knut/lib/model/commodity"
	"github.com/sboehler/knut/lib/model/price"
	"github.com/sboehler/knut/lib/verifrt/vmap"
	"github.com/shopspring/decimal"
)

// C12 — derived prices are consistent with declared prices.
//
// Every sequence of <= n price declarations over 4 commodities (directed pair x
// price incl. zero; later declarations overwrite) is inserted into the real
// price.Prices and normalized for V under EVERY map iteration order (vmap); the
// oracle is the price specification of DESIGN A.7.

type c12Decl struct {
	Com, Tgt string
	Price    string
}

type c12Case struct {
	Decls []c12Decl
	Picks []int `json:",omitempty"`
}

var c12Coms = []string{"V", "X", "Y", "Z"}

func c12Alphabet(prices []string) []c12Decl {
	var a []c12Decl
	for _, c := range c12Coms {
		for _, t := range c12Coms {
			if c == t {
				continue
			}
			for _, p := range prices {
				a = append(a, c12Decl{c, t, p})
			}
		}
	}
	return a
}

// c12Ref computes, for every commodity, the set of acceptable prices in V and whether
// a direct declaration exists.
type c12Expect struct {
	connected bool
	direct    bool
	values    []*big.Rat // acceptable values (one when direct)
}

func c12Reference(decls []c12Decl) map[string]*c12Expect {
	// latest declaration per unordered pair
	edge := map[[2]string]*big.Rat{} // edge[{a,b}] = price of b expressed in a
	for _, d := range decls {
		p := ref.Q(d.Price)
		if p.Sign() == 0 {
			continue // rejected by Insert
		}
		// price Com p Tgt: 1 Com = p Tgt
		edge[[2]string{d.Tgt, d.Com}] = p
		edge[[2]string{d.Com, d.Tgt}] = ref.Trunc(new(big.Rat).Inv(p), 8)
	}
	res := map[string]*c12Expect{}
	for _, x := range c12Coms {
		ex := &c12Expect{}
		res[x] = ex
		if x == "V" {
			ex.connected, ex.direct = true, true
			ex.values = []*big.Rat{big.NewRat(1, 1)}
			continue
		}
		if p, ok := edge[[2]string{"V", x}]; ok {
			ex.connected, ex.direct = true, true
			ex.values = []*big.Rat{ref.Trunc(ref.Mul(p, big.NewRat(1, 1)), 8)}
			continue
		}
		// all simple paths V -> x
		var rec func(cur string, acc *big.Rat, seen map[string]bool)
		rec = func(cur string, acc *big.Rat, seen map[string]bool) {
			if cur == x {
				ex.connected = true
				ex.values = append(ex.values, acc)
				return
			}
			for _, nx := range c12Coms {
				if seen[nx] {
					continue
				}
				if p, ok := edge[[2]string{cur, nx}]; ok {
					seen[nx] = true
					rec(nx, ref.Trunc(ref.Mul(p, acc), 8), seen)
					delete(seen, nx)
				}
			}
		}
		rec("V", big.NewRat(1, 1), map[string]bool{"V": true})
	}
	return res
}

type c12Obs struct {
	insertErr []bool
	prices    map[string]string // "" = no price (error)
	valErr    map[string]bool
}

func (o c12Obs) key() string {
	var ks []string
	for k, v := range o.prices {
		ks = append(ks, k+"="+v)
	}
	sort.Strings(ks)
	return fmt.Sprint(o.insertErr) + strings.Join(ks, ",")
}

// c12Exec runs the real code under the given map-order controller.
func c12Exec(decls []c12Decl, ctl vmap.Controller) c12Obs {
	reg := commodity.NewCommodities()
	cs := map[string]*commodity.Commodity{}
	for _, n := range c12Coms {
		cs[n] = reg.MustGet(n)
	}
	vmap.Ctl = ctl
	defer func() { vmap.Ctl = nil }()
	ps := make(price.Prices)
	obs := c12Obs{prices: map[string]string{}, valErr: map[string]bool{}}
	for _, d := range decls {
		err := ps.Insert(cs[d.Com], decimal.RequireFromString(d.Price), cs[d.Tgt])
		obs.insertErr = append(obs.insertErr, err != nil)
	}
	np := ps.Normalize(cs["V"])
	for _, n := range c12Coms {
		p, err := np.Price(cs[n])
		_, verr := np.Valuate(cs[n], decimal.NewFromInt(3))
		obs.valErr[n] = verr != nil
		if err != nil {
			obs.prices[n] = ""
		} else {
			obs.prices[n] = p.String()
		}
		if (err != nil) != (verr != nil) {
			obs.prices[n] += "!price/valuate disagree"
		}
	}
	return obs
}

func c12Check(decls []c12Decl, obs c12Obs) (string, string) {
	exp := c12Reference(decls)
	for i, d := range decls {
		zero := ref.IsZero(ref.Q(d.Price))
		if zero != obs.insertErr[i] {
			return "C12:zero-price-handling", fmt.Sprintf("Insert(%v) error=%v", d, obs.insertErr[i])
		}
	}
	for _, x := range c12Coms {
		ex, got := exp[x], obs.prices[x]
		if strings.Contains(got, "!") {
			return "C12:price-valuate-disagree", x + ": " + got
		}
		if !ex.connected {
			if got != "" {
				return "C12:price-for-unconnected", fmt.Sprintf("%s is not connected to V but has price %s", x, got)
			}
			continue
		}
		if got == "" {
			return "C12:no-price-for-connected", fmt.Sprintf("%s is connected to V but has no price", x)
		}
		g := ref.Q(got)
		ok := false
		for _, v := range ex.values {
			ok = ok || ref.Eq(v, g)
		}
		if !ok {
			var want []string
			for _, v := range ex.values {
				want = append(want, ref.Str(v))
			}
			if ex.direct {
				return "C12:direct-price-not-used", fmt.Sprintf("price of %s in V = %s, but the pair is declared directly: want %s", x, got, want[0])
			}
			return "C12:wrong-chain-product", fmt.Sprintf("price of %s in V = %s, want one of %v", x, got, want)
		}
	}
	return "", ""
}

func c12One(e *core.Env, decls []c12Decl, explore bool) (string, string, []int, core.ExploreStats) {
	var key, detail string
	var picks []int
	outcomes := map[string][]int{}
	x := core.Explorer{Bounds: core.Bounds{Map: -1}, MaxExec: 5000, Policies: false}
	if !explore {
		x.Bounds.Map = 0
	}
	st := x.Explore(func(c *core.Ctx) {
		obs := c12Exec(decls, c)
		c.Labels = false
		k, d := c12Check(decls, obs)
		if k != "" && key == "" {
			key, detail, picks = k, d, c.Picks()
		}
		ok := obs.key()
		if _, seen := outcomes[ok]; !seen {
			outcomes[ok] = c.Picks()
		}
	}, func(c *core.Ctx) bool { return true })
	if key == "" && len(outcomes) > 1 {
		var ks []string
		for k := range outcomes {
			ks = append(ks, k)
		}
		sort.Strings(ks)
		key, detail, picks = "C12:map-order-dependent", fmt.Sprintf("%d different results under different map orders: %v", len(ks), ks), outcomes[ks[1]]
	}
	return key, detail, picks, st
}

func c12Run(e *core.Env) {
	e.ReserveTail()
	prices := []string{"2", "0.5", "3", "0.3333", "0"}
	maxN := 4
	if e.Thorough() {
		maxN = 5
	}
	alpha := c12Alphabet(prices)
	small := c12Alphabet([]string{"2", "0.3333"})
	var seq []c12Decl
	var rec func(depth, maxN int, alpha []c12Decl)
	rec = func(depth, maxN int, alpha []c12Decl) {
		if e.Expired() {
			return
		}
		if e.Shard == 0 {
			e.Count("tree_nodes")
		}
		if e.Take() {
			key, detail, picks, st := c12One(e, seq, true)
			e.Count("evaluations")
			e.AddStats(st)
			if st.Executions > 1 {
				e.Count("distinct_nontrivial")
			}
			e.Distinct(fmt.Sprint(seq))
			if e.CaseNo()%7919 == 0 {
				e.Sample(map[string]any{"declarations": seq, "map_orders_explored": st.Executions})
			}
			if key != "" {
				cs := c12Case{Decls: append([]c12Decl(nil), seq...), Picks: picks}
				e.Violation(key, detail+fmt.Sprintf("\ndeclarations: %v", seq), cs, func() bool {
					k, _, _, _ := c12One(e, cs.Decls, true)
					return k == key
				})
			}
		}
		if depth == maxN {
			return
		}
		for _, s := range alpha {
			seq = append(seq, s)
			rec(depth+1, maxN, alpha)
			seq = seq[:len(seq)-1]
		}
	}
	rec(0, maxN-1, alpha)
	e.SetBound("declarations_full_alphabet", maxN-1)
	// one more level on the reduced price alphabet
	rec(0, maxN, small)
	e.SetBound("declarations_reduced_alphabet", maxN)

	e.BeginTail()
	if e.Take() {
		// a long price history in one included file (more directives than any batch a loader
		// or converter might use): on every probed day the value of 1 AAA is the quote of that
		// day, on the free-running binary with all CPUs and with one
		var b strings.Builder
		d0 := time.Date(2000, 1, 1, 0, 0, 0, 0, time.UTC)
		const nq = 9000
		for i := 0; i < nq; i++ {
			fmt.Fprintf(&b, "%s price AAA %d CHF\n", d0.AddDate(0, 0, i).Format("2006-01-02"), 1000+i)
		}
		c12Drv := e.Driver()
		c12Drv.Files(map[string]string{
			"j.knut":      "include \"prices.knut\"\n1999-12-31 open Assets:Portfolio\n1999-12-31 open Equity:Opening\n\n2000-01-01 \"buy\"\nEquity:Opening Assets:Portfolio 1 AAA\n",
			"prices.knut": b.String(),
		})
	history:
		for rep := 0; rep < core.Pick(e, 1, 4); rep++ {
			for _, procs := range core.Pick(e, []string{"", "4"}, []string{"", "1", "4"}) {
				for _, i := range []int{0, 1, 9, 100, 511, 512, 513, 1023, 1024, 1025, 2047, 2048, 4095, 4096, 4097, 4200, 5000, 8191, 8192, 8193, nq - 1} {
					e.Beat()
					day := d0.AddDate(0, 0, i).Format("2006-01-02")
					args := []string{"balance", "--color=false", "--csv", "-v", "CHF", "--to", day, "j.knut"}
					var o *core.Outcome
					if procs == "" {
						o = c12Drv.RunBinaryFree(2*time.Minute, args...)
					} else {
						o = c12Drv.RunBinaryProcs(procs, args...)
					}
					e.Count("command_runs")
					e.Count("evaluations")
					want := fmt.Sprintf("Assets,\nPortfolio,%d\n", 1000+i)
					if o.Exit != 0 || !strings.Contains(o.Stdout, want) {
						e.Violation("C12:command:long-history", fmt.Sprintf("GOMAXPROCS=%q: knut %s\n1 AAA should be worth %d CHF (the quote of that day)\nexit %d\n%s%s", procs, strings.Join(args, " "), 1000+i, o.Exit, clip(o.Stdout, 600), clip(o.Stderr, 600)), c12Case{}, nil)
						break history
					}
				}
			}
		}
	}
	// prices whose reciprocal or chain product sits next to an 8-decimal truncation boundary
	// (a reciprocal of 0.12345678999999999..., 1/3, 1/7, the largest and smallest amounts):
	// every single declaration and every two-step chain over them
	// (0.33333333 and 0.14285714 are the truncated reciprocals of 3 and 7: redeclaring a pair the
	// other way round with exactly the value that is already stored for that direction)
	hard := []string{"8.1000000081000002049300004017600053815590", "3", "7", "0.7", "1.00000001", "99999999.99999999", "0.00000001", "1000000000", "0.99999999", "6", "0.33333333", "0.14285714"}
	for _, p1 := range hard {
		for _, d1 := range []c12Decl{{"V", "X", p1}, {"X", "V", p1}} {
			for _, p2 := range append([]string{""}, hard...) {
				for _, d2 := range []c12Decl{{"Y", "X", p2}, {"X", "Y", p2}, {"V", "X", p2}, {"X", "V", p2}} {
					if !e.Take() {
						continue
					}
					ds := []c12Decl{d1}
					if p2 != "" {
						ds = append(ds, d2)
					}
					key, detail, picks, _ := c12One(e, ds, false)
					e.Count("evaluations")
					if key != "" {
						e.Violation(key+":boundary-price", detail+fmt.Sprintf("\ndeclarations: %v", ds), c12Case{Decls: ds, Picks: picks}, nil)
					}
				}
			}
		}
	}
	// command level: the same price specification seen through `balance -v` (prices are
	// declared on consecutive days, so "the price on a given day" includes the rule that a
	// declaration takes effect on its own day, whatever its direction)
	drv := e.Driver()
	names := map[string]string{"V": "CHF", "X": "USD", "Y": "EUR", "Z": "AAPL"}
	days := []string{"2020-01-30", "2020-01-31", "2020-02-01", "2020-02-02"}
	var pairs []c12Decl
	for _, c := range c12Coms {
		for _, t := range c12Coms {
			if c != t {
				pairs = append(pairs, c12Decl{c, t, "2"})
			}
		}
	}
	depth := core.Pick(e, 3, 4)
	var cur []c12Decl
	var rj func(d int)
	rj = func(d int) {
		if e.Expired() {
			return
		}
		if d > 0 && e.Take() {
			var body []jr.Dir
			for i, dc := range cur {
				body = append(body, jr.P(days[i], names[dc.Com], dc.Price, names[dc.Tgt]))
			}
			last := days[len(cur)-1]
			// once holding all three commodities (an unconnected one must make the command
			// fail), once holding only those the declarations connect to CHF
			pl := ref.NewLedger(body)
			all3, conn := cloneDirs(body), cloneDirs(body)
			for _, c := range []string{"USD", "EUR", "AAPL"} {
				all3 = append(all3, jr.T(last, "hold "+c, jr.B(accOpening, accCash, "1", c)))
				if _, ok, _ := pl.PriceOn(ref.ParseISO(last), "CHF", c); ok {
					conn = append(conn, jr.T(last, "hold "+c, jr.B(accOpening, accCash, "1", c)))
				}
			}
			bodies := [][]jr.Dir{all3}
			if len(conn) != len(all3) && len(conn) > len(body) {
				bodies = append(bodies, conn)
			}
			for _, b := range bodies {
				for _, cfg := range []ref.BalCfg{{Valuation: "CHF"}, {Valuation: "CHF", Interval: ref.Daily, NoClose: true}} {
					key, detail, _, _ := c03One(drv, b, cfg)
					e.Count("evaluations")
					e.Count("command_level_cases")
					if key != "" {
						e.Violation(strings.Replace(key, "C03:", "C12:command:", 1), detail, c12Case{Decls: append([]c12Decl(nil), cur...)}, nil)
					}
				}
			}
		}
		if d == depth {
			return
		}
		for _, p := range pairs {
			cur = append(cur, p)
			rj(d + 1)
			cur = cur[:len(cur)-1]
		}
	}
	rj(0)
	// quotes with more than 8 decimals and quotes below 1e-8 through the command: the
	// declared value itself enters the graph, only derived values are truncated
	for _, p1 := range []string{"0.123456789", "8.1000000081000002049300004017600053815590", "0.000000004", "1.000000005"} {
		for _, d1 := range []c12Decl{{"X", "V", p1}, {"V", "X", p1}} {
			for _, d2 := range []*c12Decl{nil, {"Y", "X", "2"}, {"X", "Y", "2"}, {"Y", "X", p1}} {
				if !e.Take() {
					continue
				}
				body := []jr.Dir{jr.P(days[0], names[d1.Com], d1.Price, names[d1.Tgt])}
				ds := []c12Decl{d1}
				if d2 != nil {
					body = append(body, jr.P(days[0], names[d2.Com], d2.Price, names[d2.Tgt]))
					ds = append(ds, *d2)
				}
				pl := ref.NewLedger(body)
				for _, c := range []string{"USD", "EUR"} {
					if _, ok, _ := pl.PriceOn(ref.ParseISO(days[1]), "CHF", c); ok {
						body = append(body, jr.T(days[1], "hold "+c, jr.B(accOpening, accCash, "1000", c)))
					}
				}
				key, detail, _, _ := c03One(drv, body, ref.BalCfg{Valuation: "CHF"})
				e.Count("evaluations")
				e.Count("command_level_cases")
				if key != "" {
					e.Violation(strings.Replace(key, "C03:", "C12:command:long-quote:", 1), detail, c12Case{Decls: ds}, nil)
				}
			}
		}
	}
	// several declarations for one pair on ONE day, in both directions: the one written last
	// is the most recent one (every sequence of <= 3 | 4 over 6 declarations)
	sameDay := []c12Decl{{"X", "V", "2"}, {"X", "V", "3"}, {"V", "X", "2"}, {"V", "X", "4"}, {"Y", "X", "5"}, {"Y", "X", "6"}}
	var rs func(d int)
	rs = func(d int) {
		if e.Expired() {
			return
		}
		if d > 0 && e.Take() {
			var body []jr.Dir
			for _, dc := range cur {
				body = append(body, jr.P(days[0], names[dc.Com], dc.Price, names[dc.Tgt]))
			}
			// hold what the declarations connect to CHF (an unconnected holding makes the
			// whole command fail, which the day-per-declaration part above covers)
			pl := ref.NewLedger(body)
			for _, c := range []string{"USD", "EUR"} {
				if _, ok, _ := pl.PriceOn(ref.ParseISO(days[1]), "CHF", c); ok {
					body = append(body, jr.T(days[1], "hold "+c, jr.B(accOpening, accCash, "1", c)))
				}
			}
			key, detail, _, _ := c03One(drv, body, ref.BalCfg{Valuation: "CHF"})
			e.Count("evaluations")
			e.Count("command_level_cases")
			if key != "" {
				e.Violation(strings.Replace(key, "C03:", "C12:command:same-day:", 1), detail, c12Case{Decls: append([]c12Decl(nil), cur...)}, nil)
			}
		}
		if d == depth {
			return
		}
		for _, p := range sameDay {
			cur = append(cur, p)
			rs(d + 1)
			cur = cur[:len(cur)-1]
		}
	}
	cur = nil
	rs(0)
	if e.Take() {
		// prices declared in the root file, positions in two included files: the valued
		// report under every loader schedule equals the single-file one (validated against
		// the mark-to-market reference)
		drv := e.Driver()
		root, a, b := multiFileJournal()
		body := append(append(append([]jr.Dir(nil), root[len(opensPrefix()):]...), a...), b...)
		for _, v := range []string{"CHF", "USD"} {
			cfg := ref.BalCfg{Valuation: v}
			if key, detail, _, _ := c03One(drv, body, cfg); key != "" {
				e.Violation("C12:"+strings.TrimPrefix(key, "C03:"), detail, balCase{body, cfg}, nil)
				continue
			}
			multiFileSchedules(e, drv, "C12", "balance-v-"+v, root, a, b, []string{"balance", "--color=false", "--digits", "8", "-v", v, "root.knut"})
		}
	}
}

func c12Replay(e *core.Env, data json.RawMessage) (bool, string) {
	if h, v, d := replayMultiFile(e, data); h {
		return v, d
	}
	var cs c12Case
	if err := json.Unmarshal(data, &cs); err != nil {
		return false, err.Error()
	}
	key, detail, _, _ := c12One(e, cs.Decls, true)
	return key != "", key + " " + detail
}

func init() {
	core.Register(&core.Check{
		ID: "C12", Level: "model_checking", Run: c12Run, Replay: c12Replay,
		Added:       "prices next to an 8-decimal truncation boundary (single declarations, two-step chains, same pair both ways); command level: same-day sequences for one pair, holdings restricted to connected commodities; three-file layout under every loader schedule",
		QuickBudget: 160 * time.Second, ThoroughBudget: 14 * time.Minute,
		Rule: "every sequence of <= n price declarations over 4 commodities (12 directed pairs x prices {2,0.5,3,0.3333,0}; reduced price set one level deeper), " +
			"each normalized for V under every map iteration order (explorer-owned, unbounded deviations); states/transitions = choice-tree nodes/edges of the map-order exploration; non-trivial = more than one map order exists",
		Assumptions: []string{"when several indirect chains exist and no direct declaration, any chain's value is accepted but it must not depend on map order",
			"dates are represented by insertion order (later declarations overwrite)"},
	})
}
