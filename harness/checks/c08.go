package checks

import (
	"bytes"
	"encoding/json"
	"fmt"
	"reflect"
	"strings"
	"time"

	"kmc/core"
	"kmc/jr"

	"github.com/sboehler/knut/lib/syntax"
	"github.com/sboehler/knut/lib/syntax/directives"
)

// C08 — format preserves meaning and comments and is idempotent.

// leafTexts collects the text of every leaf element (a struct consisting of a Range
// only, or a Range-typed field such as QuotedString.Content) of a directive tree.
func leafTexts(v reflect.Value, out *[]string, name string) {
	switch v.Kind() {
	case reflect.Interface, reflect.Pointer:
		if !v.IsNil() {
			leafTexts(v.Elem(), out, name)
		}
	case reflect.Slice:
		for i := 0; i < v.Len(); i++ {
			leafTexts(v.Index(i), out, fmt.Sprintf("%s[%d]", name, i))
		}
	case reflect.Struct:
		if v.Type() == rangeType {
			r := v.Interface().(directives.Range)
			*out = append(*out, name+"="+r.Extract())
			return
		}
		leaf := true
		for i := 0; i < v.NumField(); i++ {
			ft := v.Type().Field(i)
			if ft.Name == "Range" && ft.Type == rangeType {
				continue
			}
			if ft.Type.Kind() == reflect.Bool {
				continue
			}
			leaf = false
			leafTexts(v.Field(i), out, name+"."+ft.Name)
		}
		if !leaf {
			// a composite element (e.g. `@performance()` with an empty target list) is
			// recorded by its presence; its text may legitimately be re-laid out
			if f := v.FieldByName("Range"); f.IsValid() && f.Type() == rangeType {
				r := f.Interface().(directives.Range)
				if !(r.Text == "" && r.Start == 0 && r.End == 0) && r.End > r.Start {
					*out = append(*out, name+":present")
				}
			}
		}
		if leaf {
			if f := v.FieldByName("Range"); f.IsValid() {
				r := f.Interface().(directives.Range)
				if !(r.Text == "" && r.Start == 0 && r.End == 0) {
					*out = append(*out, name+"="+r.Extract())
				}
			}
		}
	}
}

func treeTexts(f directives.File) []string {
	var out []string
	for i, d := range f.Directives {
		out = append(out, fmt.Sprintf("#%d:%T", i, d.Directive))
		leafTexts(reflect.ValueOf(d.Directive), &out, fmt.Sprintf("d%d", i))
	}
	return out
}

func gapsOf(f directives.File, text string) string {
	var b strings.Builder
	pos := 0
	for _, d := range f.Directives {
		b.WriteString(text[pos:d.Start])
		pos = d.End
	}
	b.WriteString(text[pos:])
	return b.String()
}

func formatText(f directives.File) (string, error, string) {
	var buf bytes.Buffer
	var perr string
	var err error
	func() {
		defer func() {
			if r := recover(); r != nil {
				perr = fmt.Sprint(r)
			}
		}()
		err = syntax.FormatFile(&buf, f)
	}()
	return buf.String(), err, perr
}

// c08Check checks one parseable text; unparseable texts return ("skip").
func c08Check(x string) (string, string) {
	fx, err, p := parseText(x)
	if p != "" || err != nil {
		return "skip", ""
	}
	y, err, p := formatText(fx)
	if p != "" {
		return "C08:format-panics", p
	}
	if err != nil {
		return "C08:format-error", err.Error()
	}
	fy, err, p := parseText(y)
	if p != "" || err != nil {
		return "C08:formatted-text-does-not-parse", fmt.Sprintf("%v %s\nformatted: %q", err, p, y)
	}
	tx, ty := treeTexts(fx), treeTexts(fy)
	if len(tx) != len(ty) {
		return "C08:directives-changed", fmt.Sprintf("%d elements before, %d after\nbefore: %q\nafter:  %q\nformatted: %q", len(tx), len(ty), tx, ty, y)
	}
	for i := range tx {
		if tx[i] != ty[i] {
			return "C08:directives-changed", fmt.Sprintf("element %q became %q\nformatted: %q", tx[i], ty[i], y)
		}
	}
	if gx, gy := gapsOf(fx, x), gapsOf(fy, y); gx != gy {
		return "C08:gaps-changed", fmt.Sprintf("text between directives %q became %q", gx, gy)
	}
	z, err, p := formatText(fy)
	if p != "" || err != nil {
		return "C08:format-error", fmt.Sprint(err, p)
	}
	if z != y {
		return "C08:not-idempotent", fmt.Sprintf("format(format(x)) != format(x)\nfirst:  %q\nsecond: %q", y, z)
	}
	return "", ""
}

type layout struct {
	Sep, EOL, Trail string
	FinalNL         bool
	Between         string
	SwapAnnot       bool
	// NoBlank: no empty line after a transaction / multi-line assertion (whatever follows
	// comes directly after its last line; a parser that demands the empty line rejects it)
	NoBlank bool
}

func renderLayout(ds []jr.Dir, l layout) string {
	var b strings.Builder
	line := func(parts ...string) {
		b.WriteString(strings.Join(parts, l.Sep))
		b.WriteString(l.Trail)
		b.WriteString(l.EOL)
	}
	for i, d := range ds {
		if i > 0 {
			b.WriteString(strings.ReplaceAll(l.Between, "\n", l.EOL))
		}
		switch d.Kind {
		case jr.Open:
			line(d.Date, "open", d.Acc)
		case jr.Close:
			line(d.Date, "close", d.Acc)
		case jr.Price:
			line(d.Date, "price", d.Com, d.Price, d.Tgt)
		case jr.Include:
			line("include", `"`+d.Path+`"`)
		case jr.Assert:
			if len(d.Bals) == 1 && !d.MultiLine {
				line(d.Date, "balance", d.Bals[0].Acc, d.Bals[0].Qty, d.Bals[0].Com)
			} else {
				line(d.Date, "balance")
				for _, bl := range d.Bals {
					line(bl.Acc, bl.Qty, bl.Com)
				}
				if !l.NoBlank {
					b.WriteString(l.EOL)
				}
			}
		case jr.Trx:
			acr := func() {
				if d.Accrue != nil {
					line("@accrue", d.Accrue.Interval, d.Accrue.Start, d.Accrue.End, d.Accrue.Acc)
				}
			}
			perf := func() {
				if d.HasPerf {
					line("@performance(" + strings.Join(d.Perf, l.Sep+","+l.Sep) + ")")
				}
			}
			if l.SwapAnnot {
				perf()
				acr()
			} else {
				acr()
				perf()
			}
			line(d.Date, `"`+d.Desc+`"`)
			for _, bk := range d.Books {
				line(bk.Credit, bk.Debit, bk.Qty, bk.Com)
			}
			if !l.NoBlank {
				b.WriteString(l.EOL)
			}
		}
	}
	s := b.String()
	if !l.FinalNL {
		s = strings.TrimRight(s, "\r\n")
	}
	return s
}

func c08Dirs() []jr.Dir {
	return []jr.Dir{
		jr.O("2020-01-30", "Assets:Bank"),
		jr.C("2020-02-01", "Assets:Bänk:Ünïcode"),
		jr.P("2020-01-30", "USD", "0.90", "CHF"),
		jr.A("2020-01-30", jr.Bal{Acc: "Assets:Bank", Qty: "-1.50", Com: "CHF"}),
		jr.A("2020-01-30", jr.Bal{Acc: "Assets:Bank", Qty: "1", Com: "CHF"}, jr.Bal{Acc: "Liabilities:Card", Qty: "2", Com: "USD"}),
		{Kind: jr.Assert, Date: "2020-01-30", MultiLine: true, Bals: []jr.Bal{{Acc: "Assets:Bank", Qty: "0", Com: "CHF"}}},
		jr.T("2020-01-30", "desc", jr.B("Assets:Bank", "Expenses:Food", "10", "CHF")),
		jr.T("2020-01-30", "two  words\nsecond line", jr.B("Assets:Bänk:Ünïcode", "Expenses:Food", "10.00", "CHF"), jr.B("$macro", "Expenses:Food", "1", "CHF")),
		{Kind: jr.Trx, Date: "2020-01-30", Desc: "", Books: []jr.Booking{jr.B("A", "B", "1", "X1")}, HasPerf: true, Perf: []string{"USD", "CHF"},
			Accrue: &jr.Accrual{Interval: "monthly", Start: "2020-01-01", End: "2020-03-31", Acc: "Assets:X"}},
		{Kind: jr.Trx, Date: "2020-01-30", Desc: "p", Books: []jr.Booking{jr.B("A", "B", "1", "X1")}, HasPerf: true},
		{Kind: jr.Include, Path: "sub/b.knut"},
	}
}

func c08Layouts(full bool) []layout {
	var ls []layout
	seps := []string{" ", "   ", "\t"}
	trails := []string{"", "  ", "\t"}
	betweens := []string{"", "\n", "# comment\n", "\n* heading\n// c2\n\n"}
	if !full {
		trails = trails[:2]
		betweens = betweens[:3]
	}
	for _, sep := range seps {
		for _, eol := range []string{"\n", "\r\n"} {
			for _, tr := range trails {
				for _, fn := range []bool{true, false} {
					for _, bt := range betweens {
						for _, sw := range []bool{false, true} {
							ls = append(ls, layout{sep, eol, tr, fn, bt, sw, false})
							if bt != "\n" {
								ls = append(ls, layout{sep, eol, tr, fn, bt, sw, true})
							}
						}
					}
				}
			}
		}
	}
	return ls
}

type c08Case struct{ Text string }

func c08Run(e *core.Env) {
	try := func(text, kind string) {
		key, detail := c08Check(text)
		e.Count("evaluations")
		if key == "skip" {
			e.Count("unparseable_skipped")
			return
		}
		e.Count("distinct_nontrivial")
		e.Distinct(text)
		if key != "" {
			e.Violation(key+":"+kind, fmt.Sprintf("%s\ninput: %q", detail, clip(text, 400)), c08Case{text}, func() bool {
				k, _ := c08Check(text)
				return k == key
			})
		}
	}
	// structured journals x layouts
	dirs := c08Dirs()
	lays := c08Layouts(e.Thorough())
	n := core.Pick(e, 3, 4)
	e.Note("%d directive shapes, sequences <= %d, %d layouts", len(dirs), n, len(lays))
	forEachSeq(e, dirs, n, func(seq []jr.Dir) {
		if len(seq) == 0 {
			return
		}
		for li, l := range lays {
			if !e.Take() {
				continue
			}
			text := renderLayout(seq, l)
			try(text, "layout")
			if e.CaseNo()%100003 == 0 {
				e.Sample(map[string]any{"layout": li, "text": clip(text, 200)})
			}
		}
	})
	e.SetBound("directive_sequence_length", n)
	// token strings of C07 that happen to parse
	toks := c07Tokens()
	m := core.Pick(e, 4, 5)
	var seq []string
	var rt func(depth int)
	rt = func(depth int) {
		if depth >= 2 && e.Expired() {
			return
		}
		if e.Take() {
			try(strings.Join(seq, " "), "tokens")
		}
		if depth == m {
			return
		}
		for _, t := range toks {
			if len(t) > 1000 {
				continue
			}
			seq = append(seq, t)
			rt(depth + 1)
			seq = seq[:len(seq)-1]
		}
	}
	rt(0)
	// the format command on real files: parseable -> same bytes as the library result,
	// unparseable -> file untouched and non-zero exit
	drv := e.Driver()
	cmdCases := 0
	for i, d := range dirs {
		for li, l := range lays {
			if li%7 != 0 {
				continue
			}
			for _, broken := range []bool{false, true} {
				if !e.Take() {
					continue
				}
				text := renderLayout([]jr.Dir{d, dirs[(i+1)%len(dirs)]}, l)
				if broken {
					text += l.EOL + "2020-01-30 opn Assets:Bank" + l.EOL
				}
				drv.Files(map[string]string{"f.knut": text})
				out := drv.Run(nil, "format", "f.knut")
				after, _ := drv.ReadFile("f.knut")
				cmdCases++
				e.Count("evaluations")
				e.Count("format_command_runs")
				switch {
				case out.Abnormal() != "":
					e.Violation("C08:command-abnormal", out.Abnormal(), c08Case{text}, nil)
				case broken && (out.Exit == 0 || after != text):
					e.Violation("C08:unparseable-file-modified", fmt.Sprintf("exit %d; file before %q after %q", out.Exit, text, after), c08Case{text}, nil)
				case !broken:
					fx, perr, ppan := parseText(text)
					if perr != nil || ppan != "" {
						// a layout the parser rejects (no empty line after a block): the file must stay as it is
						if out.Exit == 0 || after != text {
							e.Violation("C08:unparseable-file-modified", fmt.Sprintf("exit %d; file before %q after %q", out.Exit, text, after), c08Case{text}, nil)
						}
						continue
					}
					want, _, _ := formatText(fx)
					if out.Exit != 0 || after != want {
						e.Violation("C08:command-differs-from-library", fmt.Sprintf("exit %d stderr %q; file %q, library %q", out.Exit, out.Stderr, after, want), c08Case{text}, nil)
					}
				}
			}
		}
	}
}

func clip(s string, n int) string {
	if len(s) > n {
		return s[:n] + "..."
	}
	return s
}

func c08Replay(e *core.Env, data json.RawMessage) (bool, string) {
	var cs c08Case
	if err := json.Unmarshal(data, &cs); err != nil {
		return false, err.Error()
	}
	key, detail := c08Check(cs.Text)
	return key != "" && key != "skip", key + " " + detail
}

func init() {
	core.Register(&core.Check{
		ID: "C08", Level: "model_checking", Run: c08Run, Replay: c08Replay,
		Added:       "layouts without the empty line after a block; composite elements (e.g. @performance()) compared by presence",
		QuickBudget: 90 * time.Second, ThoroughBudget: 14 * time.Minute,
		Rule: "every sequence of <= N directive shapes (11 shapes: open/close/price/one-,two-line and multi-line-form assertions, transactions with Unicode accounts, macros, multi-line and empty descriptions, both annotations) rendered in every layout (3 separators x LF/CRLF x trailing blanks x final newline x 3-4 inter-directive texts x annotation order), " +
			"plus every blank-joined token sequence of C07 that parses; oracle: parse(format(x)) has identical leaf texts, gaps byte-identical, format idempotent; the format command is run on files (parseable and broken); non-trivial = parseable inputs",
		Assumptions: []string{"leaf comparison is textual (dates, accounts, amounts, commodities, descriptions, annotation fields as written)"},
	})
}
