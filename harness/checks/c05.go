package checks

import (
	"encoding/json"
	"fmt"
	"sort"
	"strings"
	"time"

	"kmc/core"
	"kmc/jr"
	"kmc/ref"

	"github.com/sboehler/knut/lib/syntax/directives"
)

// C05 — directive order and file layout do not matter.

var c05Flags = [][]string{
	{},
	{"--months", "--diff"},
	{"-v", "CHF"},
	{"-v", "CHF", "--days", "--close=false"},
	{"-a", "--last", "1", "--weeks"},
	{"-m", "1:1"},
}

func c05Pool() []jr.Dir {
	a, f, o := "Assets:Bank", "Expenses:Food", "Equity:Opening"
	return []jr.Dir{
		jr.O("2020-01-01", a),
		jr.O("2020-01-01", f),
		jr.O("2020-01-01", o),
		jr.T("2020-01-30", "food", jr.B(a, f, "10", "CHF")),
		jr.T("2020-01-30", "usd", jr.B(o, a, "5", "USD")),
		jr.T("2020-02-29", "more", jr.B(a, f, "2.5", "CHF")),
		jr.P("2020-01-30", "USD", "0.9", "CHF"),
		jr.P("2020-02-29", "USD", "0.95", "CHF"),
		jr.A("2020-02-29", jr.Bal{Acc: a, Qty: "-10", Com: "CHF"}),
		jr.A("2020-01-30", jr.Bal{Acc: a, Qty: "5", Com: "USD"}),
		jr.C("2020-03-31", a),
		jr.O("2020-02-29", a),
	}
}

type c05Layout struct {
	Order  []int // permutation of the journal's directives
	Assign []int // file (0 root, 1 a, 2 b) per position of Order; nil = single file
	Shape  int   // 0 flat, 1 chain, 2 sub-directory
}

func c05Files(ds []jr.Dir, l c05Layout) (map[string]string, string) {
	fs, root := c05FilesRaw(ds, l)
	if c05Base != "" {
		fs[root] = c05Base + fs[root]
	}
	return fs, root
}

// c05Base is rendered at the top of the root file of every layout (not permuted).
var c05Base string

func c05FilesRaw(ds []jr.Dir, l c05Layout) (map[string]string, string) {
	if l.Assign == nil {
		var b strings.Builder
		for _, i := range l.Order {
			b.WriteString(ds[i].Render())
		}
		return map[string]string{"root.knut": b.String()}, "root.knut"
	}
	var parts [3]strings.Builder
	for pos, i := range l.Order {
		parts[l.Assign[pos]].WriteString(ds[i].Render())
	}
	switch l.Shape {
	case 3:
		// wide: the root includes 40 files, each of which includes one more file; the
		// three parts sit in the root, in the body of one mid-level file and in the last leaf
		const w = 40
		fs := map[string]string{}
		var rb strings.Builder
		for i := 0; i < w; i++ {
			fmt.Fprintf(&rb, "include \"m%02d.knut\"\n", i)
			mid := fmt.Sprintf("# mid %d\ninclude \"l%02d.knut\"\n", i, i)
			if i == 17 {
				mid += parts[1].String()
			}
			fs[fmt.Sprintf("m%02d.knut", i)] = mid
			leaf := fmt.Sprintf("# leaf %d\n", i)
			if i == w-1 {
				leaf += parts[2].String()
			}
			fs[fmt.Sprintf("l%02d.knut", i)] = leaf
		}
		fs["root.knut"] = rb.String() + parts[0].String()
		return fs, "root.knut"
	case 0:
		return map[string]string{
			"root.knut": "include \"a.knut\"\ninclude \"b.knut\"\n" + parts[0].String(),
			"a.knut":    parts[1].String(), "b.knut": parts[2].String()}, "root.knut"
	case 1:
		return map[string]string{
			"root.knut": "include \"a.knut\"\n" + parts[0].String(),
			"a.knut":    "include \"b.knut\"\n" + parts[1].String(), "b.knut": parts[2].String()}, "root.knut"
	default:
		return map[string]string{
			"root.knut":  parts[0].String() + "include \"sub/a.knut\"\n",
			"sub/a.knut": parts[1].String() + "include \"../b.knut\"\n", "b.knut": parts[2].String()}, "root.knut"
	}
}

// normalizePrint sorts the directives of a printed journal inside each (date, kind)
// block; the block sequence itself must be identical.
func normalizePrint(s string) string {
	f, err, p := parseText(s)
	if err != nil || p != "" {
		return "UNPARSEABLE:" + s
	}
	type item struct{ key, text string }
	var items []item
	for _, d := range f.Directives {
		var date, kind string
		switch x := d.Directive.(type) {
		case directives.Transaction:
			date, kind = x.Date.Extract(), "3trx"
		case directives.Open:
			date, kind = x.Date.Extract(), "2open"
		case directives.Close:
			date, kind = x.Date.Extract(), "5close"
		case directives.Assertion:
			date, kind = x.Date.Extract(), "4balance"
		case directives.Price:
			date, kind = x.Date.Extract(), "1price"
		}
		items = append(items, item{date + " " + kind, d.Extract()})
	}
	// the sequence of block keys must be non-decreasing already; sort stably by key
	// then text to obtain the canonical form
	var keys []string
	for _, it := range items {
		keys = append(keys, it.key)
	}
	sort.SliceStable(items, func(i, j int) bool {
		if items[i].key != items[j].key {
			return items[i].key < items[j].key
		}
		return items[i].text < items[j].text
	})
	var b strings.Builder
	if !sort.StringsAreSorted(keys) {
		b.WriteString("BLOCKS-OUT-OF-ORDER\n")
	}
	for _, it := range items {
		b.WriteString(it.key + "|" + it.text + "\n")
	}
	return b.String()
}

type c05Obs struct {
	CheckExit int
	Print     string
	PrintExit int
	Bal       []string
}

func c05Observe(drv *core.Driver, ctl func() *core.Ctx, root string) (c05Obs, string) {
	var o c05Obs
	run := func(args ...string) *core.Outcome {
		var c *core.Ctx
		if ctl != nil {
			c = ctl()
		}
		return drv.Run(c, args...)
	}
	chk := run("check", root)
	if ab := chk.Abnormal(); ab != "" {
		return o, "check: " + ab
	}
	o.CheckExit = chk.Exit
	pr := run("print", root)
	if ab := pr.Abnormal(); ab != "" {
		return o, "print: " + ab
	}
	o.PrintExit = pr.Exit
	o.Print = normalizePrint(pr.Stdout)
	for _, f := range c05Flags {
		b := run(append(append([]string{"balance", "--color=false", "--digits", "4"}, f...), root)...)
		if ab := b.Abnormal(); ab != "" {
			return o, "balance: " + ab
		}
		o.Bal = append(o.Bal, fmt.Sprintf("exit=%d\n%s", b.Exit, b.Stdout))
	}
	return o, ""
}

func c05Diff(base, o c05Obs) (string, string) {
	if (base.CheckExit == 0) != (o.CheckExit == 0) || (base.PrintExit == 0) != (o.PrintExit == 0) {
		return "verdict", fmt.Sprintf("check exit %d / print exit %d, canonical layout %d / %d", o.CheckExit, o.PrintExit, base.CheckExit, base.PrintExit)
	}
	if base.Print != o.Print {
		return "print", "printed journal differs beyond the order inside (date, kind) blocks\ncanonical:\n" + base.Print + "\nthis layout:\n" + o.Print
	}
	for i := range base.Bal {
		if base.Bal[i] != o.Bal[i] {
			return "balance", fmt.Sprintf("balance %v differs\ncanonical:\n%s\nthis layout:\n%s", c05Flags[i], base.Bal[i], o.Bal[i])
		}
	}
	return "", ""
}

type c05Case struct {
	Dirs   []jr.Dir
	Layout c05Layout
	Picks  []int  `json:",omitempty"`
	Base   string `json:",omitempty"`
}

func subsets(n, k int) [][]int {
	var res [][]int
	var rec func(start int, cur []int)
	rec = func(start int, cur []int) {
		if len(cur) == k {
			res = append(res, append([]int(nil), cur...))
			return
		}
		for i := start; i < n; i++ {
			rec(i+1, append(cur, i))
		}
	}
	rec(0, nil)
	return res
}

func assignments(k int) [][]int {
	res := [][]int{{}}
	for i := 0; i < k; i++ {
		var nx [][]int
		for _, a := range res {
			for f := 0; f < 3; f++ {
				nx = append(nx, append(append([]int(nil), a...), f))
			}
		}
		res = nx
	}
	return res
}

func c05Layouts(k int) []c05Layout {
	id := make([]int, k)
	rev := make([]int, k)
	for i := range id {
		id[i], rev[i] = i, k-1-i
	}
	var ls []c05Layout
	for _, p := range permutationsOf(k) {
		ls = append(ls, c05Layout{Order: p})
	}
	for _, a := range assignments(k) {
		for shape := 0; shape < 3; shape++ {
			ls = append(ls, c05Layout{Order: id, Assign: a, Shape: shape})
		}
		ls = append(ls, c05Layout{Order: rev, Assign: a, Shape: 0})
	}
	// one wide two-level tree (81 files) per journal
	wide := make([]int, k)
	for i := range wide {
		wide[i] = (i + 1) % 3
	}
	ls = append(ls, c05Layout{Order: id, Assign: wide, Shape: 3})
	return ls
}

func permutationsOf(n int) [][]int {
	var res [][]int
	var rec func(cur []int, used int)
	rec = func(cur []int, used int) {
		if len(cur) == n {
			res = append(res, append([]int(nil), cur...))
			return
		}
		for i := 0; i < n; i++ {
			if used&(1<<i) == 0 {
				rec(append(cur, i), used|1<<i)
			}
		}
	}
	rec(nil, 0)
	return res
}

func c05Run(e *core.Env) {
	e.ReserveTail()
	runLitmus(e)
	drv := e.Driver()
	all := c05Pool()
	// family 1: opens are permuted/distributed like everything else
	c05Base = ""
	c05Family(e, drv, all, core.Pick(e, 3, 4), "all")
	// family 2: the three opens stay at the top of the root file, so that small
	// journals are valid and their reports carry amounts
	c05Base = jr.RenderAll(all[:3])
	c05Family(e, drv, all[3:], core.Pick(e, 3, 4), "base-opens")
	c05Base = ""
	e.BeginTail()
	c05ManyFiles(e, drv)
	c05FixedJournals(e, drv)
}

// c05FixedJournals: hand-picked journals of 5-6 directives whose verdict hinges on the
// per-day evaluation order (prices, opens, transactions, assertions, closes): every
// permutation of the directives in one file must give the verdict, reports and
// printed journal of the first one.
func c05FixedJournals(e *core.Env, drv *core.Driver) {
	r, food, bank := "Expenses:Rent", "Expenses:Food", "Assets:Bank"
	d1, d2 := "2020-01-30", "2020-01-31"
	journals := [][]jr.Dir{
		// invalid: the expense account is closed on d1 and booked (credit side first) on d2
		{jr.O(d1, food), jr.O(d1, r), jr.T(d1, "a", jr.B(food, r, "1", "CHF")), jr.T(d1, "b", jr.B(food, food, "2", "CHF")), jr.C(d1, r), jr.T(d2, "c", jr.B(r, food, "1", "CHF"))},
		// valid: opened, booked and asserted on one day, closed at zero the next
		{jr.O(d1, food), jr.O(d1, bank), jr.T(d1, "a", jr.B(bank, food, "5", "CHF")), jr.T(d1, "b", jr.B(food, bank, "5", "CHF")), jr.A(d1, jr.Bal{Acc: bank, Qty: "0", Com: "CHF"}), jr.C(d2, bank)},
		// invalid: asserted before it is funded on the following day
		{jr.O(d1, food), jr.O(d1, bank), jr.A(d1, jr.Bal{Acc: bank, Qty: "5", Com: "CHF"}), jr.T(d2, "a", jr.B(food, bank, "5", "CHF")), jr.T(d2, "b", jr.B(food, food, "1", "CHF"))},
	}
	// a deep account and one of its ancestors, both booked: which of the two the account
	// registry sees first is decided by the order of the directives (reports mapped with a suffix rule)
	deep, opening := "Assets:Bank:Savings:Main", "Equity:Opening"
	journals = append(journals, []jr.Dir{jr.O(d1, deep), jr.O(d1, bank), jr.O(d1, opening), jr.T(d1, "a", jr.B(opening, deep, "100", "CHF")), jr.T(d2, "b", jr.B(opening, bank, "50", "CHF"))})
	for ji, ds := range journals {
		var base *c05Obs
		for pi, perm := range permutationsOf(len(ds)) {
			if !e.Take() {
				continue
			}
			if base == nil {
				files, root := c05FilesRaw(ds, c05Layout{Order: permutationsOf(len(ds))[0]})
				drv.Files(files)
				b, ab := c05Observe(drv, nil, root)
				if ab != "" {
					e.Violation("C05:abnormal:fixed-journal", ab, c05Case{Dirs: ds}, nil)
					return
				}
				base = &b
			}
			l := c05Layout{Order: perm}
			files, root := c05FilesRaw(ds, l)
			drv.Files(files)
			o, ab := c05Observe(drv, nil, root)
			e.Count("evaluations")
			e.Count("fixed_journal_permutations")
			if ab != "" {
				e.Violation("C05:abnormal:fixed-journal", ab, c05Case{Dirs: ds, Layout: l}, nil)
				continue
			}
			if key, detail := c05Diff(*base, o); key != "" {
				e.Violation("C05:"+key+":order:fixed-journal", fmt.Sprintf("journal %d, permutation %d %v: %s\n%s", ji, pi, perm, clip(detail, 2000), files[root]), c05Case{Dirs: ds, Layout: l}, nil)
			}
		}
	}
}

// c05ManyFiles: a journal of 120 transactions (distinct amounts, two commodities) in one
// file against the same directives spread one, two or five per file over many small
// included files (flat, and through per-group index files with relative paths). Every
// observation must agree with the single file: in process under the default schedule and
// on the free-running binary with all CPUs.
func c05ManyFiles(e *core.Env, drv *core.Driver) {
	const n = 120
	opens := "2019-12-31 open Assets:Bank\n2019-12-31 open Assets:Cash\n2019-12-31 open Expenses:Food\n2019-12-31 open Equity:Opening\n"
	var trx []string
	for i := 0; i < n; i++ {
		acc, com := "Assets:Bank", "CHF"
		if i%3 == 0 {
			acc, com = "Assets:Cash", "USD"
		}
		trx = append(trx, fmt.Sprintf("2020-%02d-%02d \"t%03d\"\n%s Expenses:Food %d.%02d %s\n\n", 1+i%12, 1+i%28, i, acc, 1+i*7, i%100, com))
	}
	single := map[string]string{"root.knut": opens + strings.Join(trx, "")}
	for _, per := range []int{1, 2, 5} {
		if !e.Take() {
			continue
		}
		drv.Files(single)
		base, ab := c05Observe(drv, nil, "root.knut")
		if ab != "" {
			e.Violation("C05:abnormal:many-files", ab, c05Case{}, nil)
			return
		}
		for _, nested := range []bool{false, true} {
			files := map[string]string{}
			var rootInc strings.Builder
			groups := map[int]*strings.Builder{}
			for f := 0; f*per < n; f++ {
				name := fmt.Sprintf("t%03d.knut", f)
				var b strings.Builder
				for k := f * per; k < (f+1)*per && k < n; k++ {
					b.WriteString(trx[k])
				}
				if nested {
					g := f / 10
					if groups[g] == nil {
						groups[g] = &strings.Builder{}
						fmt.Fprintf(&rootInc, "include \"g%02d/index.knut\"\n", g)
					}
					fmt.Fprintf(groups[g], "include \"../g%02d/%s\"\n", g, name)
					files[fmt.Sprintf("g%02d/%s", g, name)] = b.String()
				} else {
					fmt.Fprintf(&rootInc, "include \"%s\"\n", name)
					files[name] = b.String()
				}
			}
			for g, b := range groups {
				files[fmt.Sprintf("g%02d/index.knut", g)] = b.String()
			}
			files["root.knut"] = rootInc.String() + opens
			drv.Files(files)
			o, ab := c05Observe(drv, nil, "root.knut")
			e.Count("evaluations")
			e.Count("many_files_layouts")
			tag := fmt.Sprintf("%d-per-file:nested=%v", per, nested)
			if ab != "" {
				e.Violation("C05:abnormal:many-files", ab+" ("+tag+")", c05Case{}, nil)
				continue
			}
			if key, detail := c05Diff(base, o); key != "" {
				e.Violation("C05:"+key+":many-files", tag+": "+clip(detail, 3000), c05Case{}, nil)
				continue
			}
			// the same on the real binary, free-running with all CPUs
			for i := 0; i < core.Pick(e, 3, 10); i++ {
				b := drv.RunBinaryFree(60*time.Second, "balance", "--color=false", "--digits", "4", "root.knut")
				e.Count("evaluations")
				if want := strings.TrimPrefix(base.Bal[0], "exit=0\n"); b.Horizon || b.Exit != 0 || b.Stdout != want {
					e.Violation("C05:balance:many-files:binary", fmt.Sprintf("%s, run %d of the real binary: exit %d, hang=%v\n%s\nwant:\n%s", tag, i+1, b.Exit, b.Horizon, clip(b.Stdout+b.Stderr, 1500), clip(want, 1500)), c05Case{}, nil)
					break
				}
			}
		}
	}
}

func c05Family(e *core.Env, drv *core.Driver, pool []jr.Dir, maxK int, tag string) {
	schedEvery := core.Pick(e, 211, 97)
	bounds := core.Pick(e, core.Bounds{Preempt: 1, Free: 2, Total: 2}, core.Bounds{Preempt: 2, Free: 2, Total: 3})
	journalNo := 0
	for k := 1; k <= maxK; k++ {
		lays := c05Layouts(k)
		for _, sub := range subsets(len(pool), k) {
			if e.Expired() {
				return
			}
			var ds []jr.Dir
			for _, i := range sub {
				ds = append(ds, pool[i])
			}
			if ref.NewLedger(ds).SameDayPriceConflict() {
				continue
			}
			journalNo++
			if e.Shard == 0 {
				e.Count("journals")
			}
			var base *c05Obs
			getBase := func() *c05Obs {
				if base == nil {
					files, root := c05Files(ds, lays[0])
					drv.Files(files)
					b, ab := c05Observe(drv, nil, root)
					if ab != "" {
						e.Violation("C05:abnormal", ab+"\n"+jr.RenderAll(ds), c05Case{Dirs: ds, Layout: lays[0]}, nil)
					}
					base = &b
				}
				return base
			}
			for li, l := range lays {
				if !e.Take() {
					continue
				}
				b := getBase()
				files, root := c05Files(ds, l)
				drv.Files(files)
				o, ab := c05Observe(drv, nil, root)
				e.Count("evaluations")
				e.Count("states")
				e.Count("transitions")
				if k >= 2 && l.Assign != nil {
					e.Count("distinct_nontrivial")
				}
				if e.CaseNo()%20011 == 0 {
					e.Sample(map[string]any{"journal": jr.ShortAll(ds), "layout": l})
				}
				cs := c05Case{Dirs: ds, Layout: l, Base: c05Base}
				if ab != "" {
					e.Violation("C05:abnormal", ab+"\n"+fmt.Sprint(files), cs, nil)
					continue
				}
				if key, detail := c05Diff(*b, o); key != "" {
					kind := "order"
					if l.Assign != nil {
						kind = fmt.Sprintf("files-shape%d", l.Shape)
					}
					e.Violation("C05:"+key+":"+kind, detail+"\nfiles: "+fmt.Sprint(files), cs, func() bool {
						drv.Files(files)
						o2, _ := c05Observe(drv, nil, root)
						k2, _ := c05Diff(*b, o2)
						return k2 == key
					})
					continue
				}
				// schedule dimension on an evenly spaced core set of multi-file layouts
				if l.Assign != nil && l.Shape != 3 && (journalNo*131+li)%schedEvery == 0 {
					var vkey, vdetail string
					var picks []int
					for _, args := range [][]string{{"print", root}, append(append([]string{"balance", "--color=false", "--digits", "4"}, c05Flags[3]...), root)} {
						var first *core.Outcome
						x := core.Explorer{Bounds: bounds, NoMap: true, Cache: true, MaxExec: 300000, Stop: e.Expired}
						st := x.Explore(func(c *core.Ctx) {
							out := drv.Run(c, args...)
							if out.Pruned {
								return
							}
							k2, d2 := "", ""
							if ab := out.Abnormal(); ab != "" {
								k2, d2 = "abnormal", ab
							} else if first == nil {
								first = out
							} else if out.Exit != first.Exit {
								k2, d2 = "verdict:schedule", fmt.Sprintf("exit %d vs %d", out.Exit, first.Exit)
							} else if args[0] == "print" && normalizePrint(out.Stdout) != normalizePrint(first.Stdout) {
								k2, d2 = "print:schedule", "printed journal depends on the loader schedule\n"+first.Stdout+"\nvs\n"+out.Stdout
							} else if args[0] == "balance" && out.Stdout != first.Stdout {
								k2, d2 = "balance:schedule", "balance depends on the loader schedule\n"+first.Stdout+"\nvs\n"+out.Stdout
							}
							if k2 != "" && vkey == "" {
								vkey, vdetail, picks = k2, d2, c.Picks()
							}
						}, func(c *core.Ctx) bool { return vkey == "" })
						e.AddStats(st)
						e.Add("evaluations", st.Executions)
						e.Count("layouts_with_schedule_exploration")
						e.SetBound("schedule_deviations", st.BoundCompleted)
					}
					if vkey != "" {
						cs.Picks = picks
						e.Violation("C05:"+vkey, vdetail+"\nfiles: "+fmt.Sprint(files), cs, nil)
					}
				}
			}
		}
	}
	e.SetBound("directives_per_journal_"+tag, maxK)
}

func c05Replay(e *core.Env, data json.RawMessage) (bool, string) {
	var cs c05Case
	if err := json.Unmarshal(data, &cs); err != nil {
		return false, err.Error()
	}
	drv := e.Driver()
	c05Base = cs.Base
	id := make([]int, len(cs.Dirs))
	for i := range id {
		id[i] = i
	}
	files, root := c05Files(cs.Dirs, c05Layout{Order: id})
	drv.Files(files)
	base, _ := c05Observe(drv, nil, root)
	files, root = c05Files(cs.Dirs, cs.Layout)
	drv.Files(files)
	var ctl func() *core.Ctx
	if len(cs.Picks) > 0 {
		ctl = func() *core.Ctx { return core.NewReplayCtxNoMap(cs.Picks, false) }
	}
	o, ab := c05Observe(drv, ctl, root)
	if ab != "" {
		return true, ab
	}
	k, d := c05Diff(base, o)
	return k != "", k + "\n" + d
}

func init() {
	core.Register(&core.Check{
		ID: "C05", Level: "model_checking", Run: c05Run, Replay: c05Replay,
		Added:       "one 81-file two-level layout per journal; 120 transactions spread 1, 2, 5 per file (flat / nested index files) in process and on the free-running binary",
		QuickBudget: 180 * time.Second, ThoroughBudget: 14 * time.Minute,
		Rule: "every subset of <= k directives of a 12-directive pool (opens, same-day transactions, prices, correct and incorrect assertions, close with non-zero position, duplicate open; journals with two prices for one pair on one day excluded) x {all k! orders in one file} + {every assignment of the directives to 3 files x 3 include-tree shapes (flat, chain, sub-directory with ../) + reversed order}; " +
			"check/print/5 balance flag sets compared with the canonical single-file layout; on an evenly spaced subset of multi-file layouts all loader schedules within the deviation bound are explored; non-trivial = multi-file layouts of >= 2 directives",
		Assumptions: []string{"print is compared modulo the order inside (date, kind) blocks, as the statement allows", "include graphs that are not trees are C14's subject"},
	})
}
