package checks

import (
	"bytes"
	"context"
	"fmt"
	"os"
	"os/exec"
	"path/filepath"
	"regexp"
	"sort"
	"strconv"
	"strings"
	"sync"
	"time"

	"kmc/core"
	"kmc/jr"
	"kmc/litmus"

	"github.com/sboehler/knut/lib/model/registry"
)

// Race tier (DESIGN 3.9, quick layer): the same scenario bodies run free on the real Go
// runtime in a `-race` build; the happens-before race detector reports conflicting
// accesses that are unordered in the observed execution. This is exhaustive over the
// scenario set, not over schedules (the evidence says so).

// RaceRun is the entry point inside the race-instrumented binary: kmc racerun <reps>.
func RaceRun(args []string) int {
	reps, _ := strconv.Atoi(args[0])
	filter := ""
	if len(args) > 1 {
		filter = args[1]
	}
	drv := core.NewDriver("race")
	defer drv.Close()
	n := 0
	for _, sc := range append(allScenarios(true), raceOnlyScenarios()...) {
		if !strings.HasPrefix(sc.Name, filter) {
			continue
		}
		drv.Files(sc.Files)
		for i := 0; i < reps; i++ {
			// a free run normally takes milliseconds; a run that is still going after
			// 90 s hangs (deadlock on the real runtime)
			done := make(chan *core.Outcome, 1)
			go func() { done <- drv.RunNative(sc.Args...) }()
			var o *core.Outcome
			select {
			case o = <-done:
			case <-time.After(90 * time.Second):
				fmt.Fprintf(os.Stderr, "RACERUN-HANG scenario=%s\n", sc.Name)
				os.Exit(0)
			}
			n++
			if o.Panic != "" {
				fmt.Fprintf(os.Stderr, "RACERUN-PANIC scenario=%s: %s\n", sc.Name, o.Panic)
			}
		}
		fmt.Fprintf(os.Stderr, "RACERUN-SCENARIO %s\n", sc.Name)
	}
	if filter != "" {
		fmt.Fprintf(os.Stderr, "RACERUN-DONE executions=%d\n", n)
		return 0
	}
	// registry programs with real goroutines
	names := []string{"Assets:A:B", "Assets:A", "Assets:A:C", "Expenses:X:Y", "Expenses:X"}
	for i := 0; i < reps*5; i++ {
		reg := registry.New()
		var wg sync.WaitGroup
		finished := make(chan struct{})
		go func() {
			select {
			case <-finished:
			case <-time.After(60 * time.Second):
				fmt.Fprintf(os.Stderr, "RACERUN-HANG scenario=registry-program\n")
				os.Exit(0)
			}
		}()
		for g := 0; g < 4; g++ {
			wg.Add(1)
			go func(g int) {
				defer wg.Done()
				for k := 0; k < 3; k++ {
					nm := names[(g+k+i)%len(names)]
					a, _ := reg.Accounts().Get(nm)
					reg.Accounts().GetPath(strings.Split(nm, ":"))
					reg.Accounts().SwapType(a)
					reg.Commodities().Get([]string{"USD", "CHF"}[(g+k)%2])
				}
			}(g)
		}
		wg.Wait()
		close(finished)
		n++
	}
	fmt.Fprintf(os.Stderr, "RACERUN-DONE executions=%d\n", n)
	return 0
}

// raceOnlyScenarios run free under the race detector only (too large to explore):
// reports with many rows, where code may take a parallel path.
func raceOnlyScenarios() []scenario {
	var b strings.Builder
	b.WriteString("2019-12-31 open Equity:Opening\n")
	for i := 0; i < 700; i++ {
		fmt.Fprintf(&b, "2019-12-31 open Assets:Bank:Acc%03d\n", i)
	}
	for i := 0; i < 700; i++ {
		fmt.Fprintf(&b, "2020-01-%02d \"t\"\nEquity:Opening Assets:Bank:Acc%03d %d.%02d CHF\n\n", 1+i%28, i, 1+(i*7919)%100000, i%100)
	}
	files := map[string]string{"j.knut": b.String()}
	// infer on a target of 700 transactions with different descriptions
	words := []string{"migros", "coop", "sbb", "rent", "salary", "kiosk", "pharmacy"}
	var tr, tg strings.Builder
	tr.WriteString("2020-01-01 open Assets:Bank\n")
	for i, w := range words {
		for k := 0; k < 3; k++ {
			fmt.Fprintf(&tr, "2020-01-%02d \"%s store %d\"\nAssets:Bank Expenses:%s %d CHF\n\n", 2+i, w, k, strings.ToUpper(w[:1])+w[1:], 10+k)
		}
	}
	for i := 0; i < 700; i++ {
		fmt.Fprintf(&tg, "2020-02-%02d \"%s purchase %d\"\nAssets:Bank Expenses:TBD %d CHF\n\n", 1+i%28, words[i%len(words)], i, 5+i%50)
	}
	inferFiles := map[string]string{"train.knut": tr.String(), "target.knut": tg.String()}
	// one file of 5000 bookings (more directives than any batch size a loader might use)
	var big strings.Builder
	big.WriteString("2019-12-31 open Assets:Bank\n2019-12-31 open Expenses:Food\n2019-12-31 open Equity:Opening\n2019-12-31 price USD 0.9 CHF\n")
	for i := 0; i < 5000; i++ {
		fmt.Fprintf(&big, "2020-%02d-%02d \"t%05d\"\nAssets:Bank Expenses:Food %d.%02d USD\n\n", 1+(i/400)%12, 1+i%28, i, 1+i, i%100)
	}
	bigFiles := map[string]string{"root.knut": "include \"big.knut\"\n", "big.knut": big.String()}
	// portfolio returns with filters: a commodity that the filter rejects, booked on accounts
	// that appear for the first time on later days (the two performance stages evaluate the
	// same filter objects on different days at the same time)
	var filt []jr.Dir
	for i := 0; i < 12; i++ {
		d := fmt.Sprintf("2020-01-%02d", 5+i)
		acc := fmt.Sprintf("Assets:Later%02d", i)
		filt = append(filt, jr.P(d, "USD", fmt.Sprintf("0.9%d", i%10), "CHF"), jr.P(d, "EUR", "1.1", "CHF"), jr.O(d, acc),
			jr.T(d, "usd", jr.B(accOpening, accCash, "10", "USD")), jr.T(d, "eur", jr.B(accOpening, acc, "5", "EUR")))
	}
	filtFiles := map[string]string{"j.knut": jr.RenderAll(append(opensPrefix(), filt...))}
	return []scenario{
		{Name: "pipe-returns-filtered", Files: filtFiles, Args: []string{"portfolio", "returns", "-v", "CHF", "--account", "Assets|Liabilities", "--commodity", "USD|CHF", "--days", "j.knut"}},
		{Name: "pipe-returns-two-expressions", Files: filtFiles, Args: []string{"portfolio", "returns", "-v", "CHF", "--account", "Cash", "--account", "Later", "--commodity", "USD", "--commodity", "EUR", "--days", "j.knut"}},
		{Name: "big-file-5000-transcode", Files: bigFiles, Args: []string{"transcode", "-v", "CHF", "root.knut"}},
		{Name: "big-infer-700", Files: inferFiles, Args: []string{"infer", "-t", "train.knut", "target.knut"}},
		{Name: "big-table-balance", Files: files, Args: []string{"balance", "--color=false", "--digits", "2", "j.knut"}},
		{Name: "big-table-balance-days", Files: files, Args: []string{"balance", "--color=false", "--diff", "--days", "-k", "j.knut"}},
		{Name: "big-table-weights", Files: files, Args: []string{"portfolio", "weights", "-v", "CHF", "--color=false", "j.knut"}},
	}
}

func raceOnlyScenario(name string) scenario {
	for _, s := range raceOnlyScenarios() {
		if s.Name == name {
			return s
		}
	}
	panic("no race-only scenario " + name)
}

var reFrame = regexp.MustCompile(`(?m)^  (github\.com/sboehler/knut/[^\s(]+)`)

// raceTier runs the race binary and turns every distinct report into a violation.
func raceTier(e *core.Env, reps int, prop, filter string) {
	bin := filepath.Join(core.Root, ".cache", "bin", "kmc-race")
	if _, err := os.Stat(bin); err != nil {
		e.EngineError("race binary missing: %v", err)
		return
	}
	// the free runs have their own per-run watchdogs; the whole tier is bounded by ten
	// minutes (a capped tier is reported as such, not as an error), and it keeps the
	// worker's heartbeat alive while it waits
	limit := 10 * time.Minute
	if !e.Deadline.IsZero() {
		if rem := time.Until(e.Deadline) - 20*time.Second; rem < limit {
			limit = rem
		}
	}
	if limit < 15*time.Second {
		e.Capped()
		e.Note("race tier (%s) skipped: the time budget of this run is used up", filter)
		return
	}
	ctx, cancel := context.WithTimeout(context.Background(), limit)
	defer cancel()
	stopBeat := make(chan struct{})
	defer close(stopBeat)
	go func() {
		for {
			select {
			case <-stopBeat:
				return
			case <-time.After(5 * time.Second):
				e.Beat()
			}
		}
	}()
	cmd := exec.CommandContext(ctx, bin, "racerun", strconv.Itoa(reps), filter)
	cmd.Env = append(os.Environ(), "GORACE=halt_on_error=0 exitcode=0", "GOMAXPROCS=8")
	var stderr bytes.Buffer
	cmd.Stderr = &stderr
	cmd.Stdout = &stderr
	if err := cmd.Run(); err != nil {
		if ctx.Err() == nil {
			e.EngineError("race run failed: %v\n%s", err, tailStr(stderr.String(), 30))
			return
		}
		e.Capped()
		e.Note("race tier (%s) stopped at its time limit: %d scenarios finished; reports so far are evaluated", filter, strings.Count(stderr.String(), "RACERUN-SCENARIO"))
	}
	out := stderr.String()
	if hm := regexp.MustCompile(`RACERUN-HANG scenario=(\S+)`).FindStringSubmatch(out); hm != nil {
		e.Violation(prop+":hang-free-running:"+scenarioClass(hm[1]), "the command did not terminate within 90 s when run free on the real Go runtime (normal: milliseconds); scenario "+hm[1],
			map[string]string{"scenario": hm[1]}, nil)
		return
	}
	m := regexp.MustCompile(`RACERUN-DONE executions=(\d+)`).FindStringSubmatch(out)
	if m == nil && ctx.Err() == nil {
		e.EngineError("race run did not finish:\n%s", tailStr(out, 30))
		return
	}
	n := strings.Count(out, "RACERUN-SCENARIO") * reps
	if m != nil {
		n, _ = strconv.Atoi(m[1])
	}
	e.Add("race_detector_executions", n)
	e.Add("evaluations", n)
	blocks := strings.Split(out, "WARNING: DATA RACE")
	seen := map[string]string{}
	scenarioOf := map[string]string{}
	for i, b := range blocks[1:] {
		end := strings.Index(b, "==================")
		if end > 0 {
			b = b[:end]
		}
		frames := reFrame.FindAllStringSubmatch(b, -1)
		var fs []string
		for _, f := range frames {
			fn := strings.TrimPrefix(f[1], "github.com/sboehler/knut/")
			if strings.Contains(fn, "verifrt") {
				continue
			}
			fs = append(fs, fn)
		}
		fs = uniq(fs)
		if len(fs) > 3 {
			fs = fs[:3]
		}
		key := strings.Join(fs, "|")
		if _, ok := seen[key]; !ok {
			seen[key] = b
			// the scenario marker printed after the block tells where it happened
			rest := strings.Join(blocks[i+1:], "")
			if mm := regexp.MustCompile(`RACERUN-SCENARIO (\S+)`).FindStringSubmatch(rest); mm != nil {
				scenarioOf[key] = mm[1]
			}
		}
	}
	e.Add("race_reports", len(blocks)-1)
	keys := make([]string, 0, len(seen))
	for k := range seen {
		keys = append(keys, k)
	}
	sort.Strings(keys)
	for _, k := range keys {
		e.Violation(prop+":data-race:"+k, "the race detector reports conflicting unsynchronised accesses (scenario "+scenarioOf[k]+")\n"+clip(seen[k], 3000),
			map[string]string{"scenario": scenarioOf[k], "frames": k}, nil)
	}
	if strings.Contains(out, "RACERUN-PANIC") {
		e.Violation(prop+":panic-free-running", tailStr(out, 20), map[string]string{}, nil)
	}
}

func uniq(ss []string) []string {
	seen := map[string]bool{}
	var res []string
	for _, s := range ss {
		if !seen[s] {
			seen[s] = true
			res = append(res, s)
		}
	}
	return res
}

func tailStr(s string, n int) string {
	ls := strings.Split(strings.TrimRight(s, "\n"), "\n")
	if len(ls) > n {
		ls = ls[len(ls)-n:]
	}
	return strings.Join(ls, "\n")
}

// runLitmus gates every scheduler-based claim on the conformance of the substituted
// runtime with the real Go runtime and the real conc/errgroup libraries (DESIGN 3.3).
func runLitmus(e *core.Env) {
	if !e.Take() {
		return
	}
	n, fails := litmus.Selftest(core.Pick(e, 150, 1000))
	e.Add("litmus_executions", n)
	e.Add("traces_validated_against_impl", core.Pick(e, 150, 1000)*10)
	for _, f := range fails {
		e.EngineError("litmus conformance: %s", f)
	}
}
