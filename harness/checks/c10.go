package checks

import (
	"encoding/json"
	"fmt"
	"math/big"
	"regexp"
	"sort"
	"strings"
	"time"

	"kmc/core"
	"kmc/jr"
	"kmc/ref"

	"github.com/sboehler/knut/lib/common/date"
	"github.com/sboehler/knut/lib/model/registry"
	"github.com/sboehler/knut/lib/model/transaction"
	"github.com/sboehler/knut/lib/syntax/directives"
)

// C10 — accruals move amounts in time without creating or losing money.
//
// Transactions x accrual intervals x windows are enumerated and expanded by the real
// transaction.Create (library entry, so that `once` and `yearly` are reachable); the
// oracle is conservation per account/commodity plus the calendar reference of C11.

func rng(s string) directives.Range { return directives.Range{Text: s, Start: 0, End: len(s)} }

func synAccount(s string) directives.Account { return directives.Account{Range: rng(s)} }

// synTrx builds a syntax tree transaction by hand (ranges point into private strings).
func synTrx(d jr.Dir) *directives.Transaction {
	t := &directives.Transaction{
		Range:       rng(d.Render()),
		Date:        directives.Date{Range: rng(d.Date)},
		Description: directives.QuotedString{Range: rng(`"` + d.Desc + `"`), Content: rng(d.Desc)},
	}
	for _, b := range d.Books {
		t.Bookings = append(t.Bookings, directives.Booking{
			Range:     rng(b.Credit + " " + b.Debit + " " + b.Qty + " " + b.Com),
			Credit:    synAccount(b.Credit),
			Debit:     synAccount(b.Debit),
			Quantity:  directives.Decimal{Range: rng(b.Qty)},
			Commodity: directives.Commodity{Range: rng(b.Com)},
		})
	}
	if a := d.Accrue; a != nil {
		t.Addons.Accrual = directives.Accrual{
			Range:    rng("@accrue " + a.Interval + " " + a.Start + " " + a.End + " " + a.Acc),
			Interval: directives.Interval{Range: rng(a.Interval)},
			Start:    directives.Date{Range: rng(a.Start)},
			End:      directives.Date{Range: rng(a.End)},
			Account:  synAccount(a.Acc),
		}
		t.Addons.Range = t.Addons.Accrual.Range
	}
	return t
}

type c10Case struct {
	Trx jr.Dir
}

type accCom struct{ acc, com string }

func c10One(d jr.Dir) (string, string) {
	reg := registry.New()
	ts, err := transaction.Create(reg, synTrx(d))
	if err != nil {
		return "C10:create-error", err.Error()
	}
	acr := d.Accrue
	iv, _ := date.ParseInterval(acr.Interval)
	periods := RefPartition(parseISO(acr.Start), parseISO(acr.End), iv, 0)
	// what the original transaction books
	want := map[accCom]*big.Rat{}
	addTo := func(m map[accCom]*big.Rat, k accCom, q *big.Rat) {
		if m[k] == nil {
			m[k] = new(big.Rat)
		}
		m[k].Add(m[k], q)
	}
	for _, b := range d.Books {
		addTo(want, accCom{b.Credit, b.Com}, ref.Neg(ref.Q(b.Qty)))
		addTo(want, accCom{b.Debit, b.Com}, ref.Q(b.Qty))
	}
	got := map[accCom]*big.Rat{}
	datesByAcc := map[string][]string{}
	for i, t := range ts {
		sum := map[string]*big.Rat{}
		if len(t.Postings)%2 != 0 || len(t.Postings) == 0 {
			return "C10:odd-postings", fmt.Sprintf("generated transaction %d has %d postings", i, len(t.Postings))
		}
		touched := map[string]bool{}
		for _, p := range t.Postings {
			q := ref.Q(p.Quantity.String())
			c := p.Commodity.Name()
			if sum[c] == nil {
				sum[c] = new(big.Rat)
			}
			sum[c].Add(sum[c], q)
			addTo(got, accCom{p.Account.Name(), c}, q)
			touched[p.Account.Name()] = true
		}
		for c, s := range sum {
			if s.Sign() != 0 {
				return "C10:unbalanced-transaction", fmt.Sprintf("generated transaction %d does not balance in %s: %s", i, c, ref.Str(s))
			}
		}
		for a := range touched {
			datesByAcc[a] = append(datesByAcc[a], t.Date.Format("2006-01-02"))
		}
	}
	for k, w := range want {
		if k.acc == acr.Acc {
			continue
		}
		g := got[k]
		if g == nil {
			g = new(big.Rat)
		}
		if g.Cmp(w) != 0 {
			return "C10:not-conserved:" + jr.AccountType(k.acc), fmt.Sprintf("account %s %s: generated transactions book %s, the original booked %s", k.acc, k.com, ref.Str(g), ref.Str(w))
		}
	}
	for k, g := range got {
		if k.acc == acr.Acc {
			if g.Sign() != 0 {
				return "C10:accrual-account-not-zero", fmt.Sprintf("accrual account %s nets to %s %s", k.acc, ref.Str(g), k.com)
			}
			continue
		}
		if _, ok := want[k]; !ok && g.Sign() != 0 {
			return "C10:created-money", fmt.Sprintf("account %s %s receives %s but was not booked by the original", k.acc, k.com, ref.Str(g))
		}
	}
	// dating: one leg per original booking leg
	legs := map[string]int{}
	for _, b := range d.Books {
		legs[b.Credit]++
		legs[b.Debit]++
	}
	for a, n := range legs {
		if a == acr.Acc {
			continue
		}
		ds := append([]string(nil), datesByAcc[a]...)
		sort.Strings(ds)
		var exp []string
		if jr.IsIE(a) {
			for i := 0; i < n; i++ {
				for _, p := range periods {
					exp = append(exp, iso(p.e))
				}
			}
		} else {
			for i := 0; i < n; i++ {
				exp = append(exp, d.Date)
			}
		}
		sort.Strings(exp)
		if fmt.Sprint(ds) != fmt.Sprint(exp) {
			kind := "other-leg-date"
			if jr.IsIE(a) {
				kind = "income-expense-leg-dates"
			}
			return "C10:" + kind + ":" + jr.AccountType(a), fmt.Sprintf("account %s is booked on %v, want %v", a, ds, exp)
		}
	}
	return "", ""
}

func c10Run(e *core.Env) {
	c10Command(e)
	accs := []string{"Assets:Bank", "Liabilities:Card", "Equity:Opening", "Income:Salary", "Expenses:Rent"}
	amounts := []string{"1", "-1", "0", "100", "0.01", "33.33333333", "1000000.000001"}
	ivs := []string{"once", "daily", "weekly", "monthly", "quarterly", "yearly"}
	dates := []string{"2020-01-30", "2020-01-31", "2020-02-01", "2020-02-29", "2020-03-02", "2020-03-31", "2020-04-01"}
	type win struct{ s, e string }
	var wins []win
	for i, s := range dates {
		for _, en := range dates[i:] {
			wins = append(wins, win{s, en})
		}
	}
	runLen := 40
	if e.Thorough() {
		runLen = 100
	}
	base := day(2019, 12, 20)
	for i := 0; i < runLen; i++ {
		for j := i; j < runLen; j++ {
			wins = append(wins, win{iso(base.AddDate(0, 0, i)), iso(base.AddDate(0, 0, j))})
		}
	}
	if e.Thorough() {
		wins = append(wins, win{"2019-11-15", "2021-03-10"}, win{"2020-02-29", "2024-02-29"})
	}
	// windows of centuries (the daily expansion of the first one has 106 753 instalments)
	longWins := []win{{"1700-01-01", "1992-04-12"}, {"1700-01-01", "2023-12-31"}, {"1000-01-01", "3000-12-31"}}
	try := func(d jr.Dir) {
		if !e.Take() {
			return
		}
		key, detail := c10One(d)
		e.Count("evaluations")
		e.Count("states")
		e.Count("transitions")
		if d.Accrue.Start != d.Accrue.End {
			e.Count("distinct_nontrivial")
		}
		if e.CaseNo()%50021 == 0 {
			e.Sample(d.Short())
		}
		if key != "" {
			e.Violation(key, detail+"\n"+d.Render(), c10Case{d}, nil)
		}
	}
	acrAccs := []string{"Assets:Receivables", "Equity:Accruals"}
	for _, cr := range accs {
		for _, dr := range accs {
			if e.Expired() {
				return
			}
			for _, q := range amounts {
				for _, iv := range ivs {
					for _, w := range wins {
						for ai, aa := range acrAccs {
							if ai == 1 && len(w.s) > 0 && w.s > "2020-02-15" {
								continue // second accrual account on a subset of the windows
							}
							for _, td := range []string{"2020-01-31", "2020-06-15"} {
								if td == "2020-06-15" && q != "100" {
									continue
								}
								try(jr.Dir{Kind: jr.Trx, Date: td, Desc: "rent", Books: []jr.Booking{{Credit: cr, Debit: dr, Qty: q, Com: "CHF"}},
									Accrue: &jr.Accrual{Interval: iv, Start: w.s, End: w.e, Acc: aa}})
							}
						}
					}
				}
			}
		}
	}
	for _, w := range longWins {
		for _, iv := range ivs {
			if iv == "daily" && w.e > "2000" {
				continue
			}
			for _, q := range []string{"100", "1000000.000001"} {
				try(jr.Dir{Kind: jr.Trx, Date: "2020-02-01", Desc: "long", Books: []jr.Booking{{Credit: "Assets:Bank", Debit: "Expenses:Rent", Qty: q, Com: "CHF"}},
					Accrue: &jr.Accrual{Interval: iv, Start: w.s, End: w.e, Acc: "Assets:Receivables"}})
			}
		}
	}
	// two bookings
	small := []string{"Assets:Bank", "Equity:Opening", "Income:Salary", "Expenses:Rent"}
	for _, c1 := range small {
		for _, dd1 := range small {
			for _, c2 := range small {
				for _, dd2 := range small {
					if e.Expired() {
						return
					}
					for _, q := range []string{"100", "-33.33333333", "0.01"} {
						for _, iv := range []string{"daily", "weekly", "monthly", "quarterly"} {
							for _, w := range wins[:28] {
								try(jr.Dir{Kind: jr.Trx, Date: "2020-02-01", Desc: "two", Books: []jr.Booking{
									{Credit: c1, Debit: dd1, Qty: q, Com: "CHF"}, {Credit: c2, Debit: dd2, Qty: "7", Com: "USD"}},
									Accrue: &jr.Accrual{Interval: iv, Start: w.s, End: w.e, Acc: "Assets:Receivables"}})
							}
						}
					}
				}
			}
		}
	}
}

// c10Command: accruals at many positions of a long file (after every 5 of 1300 filler
// transactions), and one daily accrual over two years, through the real loader and
// `print`: every accrual must come out as its 12 (730) instalments, and the totals
// through `balance` must be those of the original bookings.
func c10Command(e *core.Env) {
	if !e.Take() {
		return
	}
	drv := e.Driver()
	var b strings.Builder
	b.WriteString("2019-12-31 open Assets:Bank\n2019-12-31 open Assets:Accrued\n2019-12-31 open Expenses:Rent\n2019-12-31 open Expenses:Food\n")
	nAcc := 0
	for i := 0; i < 1300; i++ {
		fmt.Fprintf(&b, "2020-01-%02d \"f%04d\"\nAssets:Bank Expenses:Food 1 CHF\n\n", 1+i%28, i)
		if i%5 == 4 {
			fmt.Fprintf(&b, "@accrue monthly 2020-01-01 2020-12-31 Assets:Accrued\n2020-01-15 \"acc%03d\"\nAssets:Bank Expenses:Rent 1200 CHF\n\n", nAcc)
			nAcc++
		}
	}
	b.WriteString("@accrue daily 2020-01-01 2021-12-30 Assets:Accrued\n2020-01-15 \"daily\"\nAssets:Bank Expenses:Rent 730 CHF\n\n")
	drv.Files(map[string]string{"j.knut": b.String()})
	pr := drv.Run(nil, "print", "j.knut")
	e.Count("evaluations")
	if ab := pr.Abnormal(); ab != "" || pr.Exit != 0 {
		e.Violation("C10:command:print-failed", ab+pr.Stderr, c10Case{}, nil)
		return
	}
	counts := map[string]int{}
	for _, m := range regexp.MustCompile(`"(acc\d{3}|daily) \(accrual \d+/(\d+)\)"`).FindAllStringSubmatch(pr.Stdout, -1) {
		counts[m[1]]++
	}
	for i := 0; i < nAcc; i++ {
		if n := counts[fmt.Sprintf("acc%03d", i)]; n != 12 {
			e.Violation("C10:command:instalments-missing", fmt.Sprintf("accrual acc%03d (the %d-th transaction of the file) is printed with %d of its 12 instalments", i, 6*(i+1), n), c10Case{}, nil)
			return
		}
	}
	if n := counts["daily"]; n != 730 {
		e.Violation("C10:command:instalments-missing", fmt.Sprintf("the daily accrual over 730 days is printed with %d instalments", n), c10Case{}, nil)
		return
	}
	bal := drv.Run(nil, "balance", "--csv", "j.knut")
	e.Count("evaluations")
	wantRent := fmt.Sprint(nAcc*1200 + 730)
	okRent, accrued := false, false
	for _, ln := range strings.Split(bal.Stdout, "\n") {
		f := strings.Split(ln, ",")
		if len(f) >= 3 && f[0] == "Rent" && strings.TrimPrefix(f[len(f)-1], "-") == wantRent { // expenses are shown with the sign of the E+I+E section
			okRent = true
		}
		if len(f) >= 3 && f[0] == "Accrued" && f[len(f)-1] != "" && f[len(f)-1] != "0" {
			accrued = true
		}
	}
	if bal.Exit != 0 || !okRent || accrued {
		e.Violation("C10:command:totals", fmt.Sprintf("balance: exit %d, Expenses:Rent == %s: %v, Assets:Accrued non-zero: %v\n%s", bal.Exit, wantRent, okRent, accrued, clip(bal.Stdout, 800)), c10Case{}, nil)
	}
}

func c10Replay(e *core.Env, data json.RawMessage) (bool, string) {
	var cs c10Case
	if err := json.Unmarshal(data, &cs); err != nil {
		return false, err.Error()
	}
	key, detail := c10One(cs.Trx)
	return key != "", key + " " + detail
}

func init() {
	core.Register(&core.Check{
		ID: "C10", Level: "model_checking", Run: c10Run, Replay: c10Replay,
		Added:       "windows of three centuries to two millennia",
		QuickBudget: 80 * time.Second, ThoroughBudget: 14 * time.Minute,
		Rule: "transactions with 1-2 bookings over account types {A,L,Equity,Income,Expenses}^2 x 7 amounts x 6 intervals (once/yearly through the library entry) x every window start<=end over the date alphabet and a day run, window independent of the transaction date; " +
			"each case is expanded by transaction.Create; non-trivial = window longer than one day",
		Assumptions: []string{"the accrual account is never itself a leg of the transaction (the statement is ambiguous there)", "calendar reference shared with C11"},
	})
}
