package checks

import (
	"encoding/json"
	"fmt"
	"strings"
	"time"

	"kmc/core"
	"kmc/jr"
	"kmc/ref"

	"github.com/sboehler/knut/lib/common/date"
)

// C11 — reporting periods partition the requested window.
//
// Exhaustive enumeration of (start, end, interval, last) over a calendar window
// that contains leap day, year/quarter/month/ISO-week boundaries and start > end;
// the oracle is an independent calendar computation (group the days of the window
// by their calendar-unit id).

var intervals = []date.Interval{date.Once, date.Daily, date.Weekly, date.Monthly, date.Quarterly, date.Yearly}

func day(y int, m time.Month, d int) time.Time { return time.Date(y, m, d, 0, 0, 0, 0, time.UTC) }

// RefPartition adapts the shared calendar reference to knut's interval type.
func RefPartition(s, e time.Time, iv date.Interval, last int) []struct{ s, e time.Time } {
	var res []struct{ s, e time.Time }
	for _, p := range ref.Partition(s, e, ref.Interval(iv), last) {
		res = append(res, struct{ s, e time.Time }{p.S, p.E})
	}
	return res
}

type c11Case struct {
	Start, End string
	Interval   string
	Last       int
	Date       string `json:",omitempty"`
}

func iso(t time.Time) string {
	if t.IsZero() {
		return "-"
	}
	return t.Format("2006-01-02")
}

func parseISO(s string) time.Time {
	t, _ := time.Parse("2006-01-02", s)
	return t
}

// c11One checks one configuration; alignFrom..alignTo (inclusive) are probed through Align.
func c11One(s, e time.Time, iv date.Interval, last int, probes []time.Time) (string, string, int) {
	part := date.NewPartition(date.Period{Start: s, End: e}, iv, last)
	ref := RefPartition(s, e, iv, last)
	sd, ed := part.StartDates(), part.EndDates()
	if len(sd) != len(ref) || len(ed) != len(ref) || part.Size() != len(ref) {
		return "periods", fmt.Sprintf("got %d periods %v..%v, want %d %v", len(sd), fmtDates(sd), fmtDates(ed), len(ref), ref), 0
	}
	for i := range ref {
		if !sd[i].Equal(ref[i].s) || !ed[i].Equal(ref[i].e) {
			return "periods", fmt.Sprintf("period %d = [%s,%s], want [%s,%s]", i, iso(sd[i]), iso(ed[i]), iso(ref[i].s), iso(ref[i].e)), 0
		}
	}
	al := part.Align()
	n := 0
	for _, d := range probes {
		n++
		got := al(d)
		var want time.Time
		switch {
		case len(ref) == 0 || d.After(e):
			// later dates (and every date when nothing is shown) belong to no column
		default:
			want = ref[0].e
			for _, p := range ref {
				if !d.After(p.e) {
					want = p.e
					break
				}
			}
		}
		if iv == date.Once && len(ref) == 1 && s.After(e) && !d.After(e) {
			want = e
		}
		if !got.Equal(want) {
			return "align", fmt.Sprintf("Align(%s) = %s, want %s", iso(d), iso(got), iso(want)), n
		}
		// Contains must agree with the span
		if part.Contains(d) != (!d.Before(s) && !d.After(e)) {
			return "contains", fmt.Sprintf("Contains(%s) = %v", iso(d), part.Contains(d)), n
		}
	}
	return "", "", n
}

func fmtDates(ds []time.Time) string {
	var ss []string
	for _, d := range ds {
		ss = append(ss, iso(d))
	}
	return "[" + strings.Join(ss, " ") + "]"
}

// c11Command: the same statement through the flag layer and the report: a journal with one
// booking of 2^i CHF on each of 15 consecutive days around a year end (so that a cell tells
// exactly which days it contains) is reported by the real `balance` for every --from/--to
// pair over those days (and open ends) x interval x --last x --diff; columns and cells are
// compared with the reference ledger, whose periods come from the calendar reference.
func c11Command(e *core.Env) {
	drv := e.Driver()
	var body []jr.Dir
	var dates []string
	d0 := day(2020, 12, 24)
	for i := 0; i < 15; i++ {
		d := iso(d0.AddDate(0, 0, i))
		dates = append(dates, d)
		body = append(body, jr.T(d, "d", jr.B("Equity:Opening", "Assets:Bank:Checking", fmt.Sprint(1<<i), "CHF")))
	}
	cfgs := windowCfgs(dates, false)
	e.Note("command level: 15 daily bookings, %d window/interval/--last/--diff combinations", len(cfgs))
	for _, cfg := range cfgs {
		if !e.Take() {
			continue
		}
		key, detail, _ := c02One(drv, body, cfg)
		e.Count("evaluations")
		e.Count("command_runs")
		if key != "" {
			cs := balCase{Body: body, Cfg: cfg}
			e.Violation("C11:command:"+strings.TrimPrefix(key, "C02:"), detail, cs, func() bool { k, _, _ := c02One(drv, cs.Body, cs.Cfg); return k == key })
		}
	}
	// a journal with whole periods without any directive (days 0, 1, 9, 10 and 14 only)
	var sparse []jr.Dir
	for _, i := range []int{0, 1, 9, 10, 14} {
		sparse = append(sparse, body[i])
	}
	for i, cfg := range cfgs {
		if i%2 != 0 || !e.Take() {
			continue
		}
		key, detail, _ := c02One(drv, sparse, cfg)
		e.Count("evaluations")
		e.Count("command_runs")
		if key != "" {
			cs := balCase{Body: sparse, Cfg: cfg}
			e.Violation("C11:command:"+strings.TrimPrefix(key, "C02:")+":sparse", detail, cs, func() bool { k, _, _ := c02One(drv, cs.Body, cs.Cfg); return k == key })
		}
	}
	// a journal whose last directives are not transactions (a balance assertion, an open and
	// a close after the last booking): the window ends with the last transaction or price
	trailing := append(append([]jr.Dir(nil), body[:10]...),
		jr.A(dates[11], jr.Bal{Acc: "Assets:Bank:Checking", Qty: "1023", Com: "CHF"}),
		jr.O(dates[12], "Assets:Late"), jr.C(dates[14], "Assets:Late"))
	for i, cfg := range cfgs {
		if i%2 != 1 || !e.Take() {
			continue
		}
		key, detail, _ := c02One(drv, trailing, cfg)
		e.Count("evaluations")
		e.Count("command_runs")
		if key != "" {
			cs := balCase{Body: trailing, Cfg: cfg}
			e.Violation("C11:command:"+strings.TrimPrefix(key, "C02:")+":trailing", detail, cs, func() bool { k, _, _ := c02One(drv, cs.Body, cs.Cfg); return k == key })
		}
	}
	// the same on a machine whose local time zone is east / west of UTC (journal dates and
	// flag dates are calendar days; every 4th configuration)
	saved := time.Local
	defer func() { time.Local = saved }()
	for _, z := range []*time.Location{time.FixedZone("east", 3600), time.FixedZone("west", -5*3600)} {
		time.Local = z
		for i, cfg := range cfgs {
			if i%4 != 0 || !e.Take() {
				continue
			}
			key, detail, _ := c02One(drv, body, cfg)
			e.Count("evaluations")
			e.Count("command_runs")
			if key != "" {
				e.Violation("C11:command:"+strings.TrimPrefix(key, "C02:")+":timezone", "local time zone "+z.String()+"\n"+detail, balCase{Body: body, Cfg: cfg}, nil)
			}
		}
	}
	time.Local = saved
}

func c11Run(e *core.Env) {
	lasts := []int{0, 1, 2, 3, 50}
	check := func(s, en time.Time, probes []time.Time) {
		for _, iv := range intervals {
			for _, last := range lasts {
				if !e.Take() {
					continue
				}
				key, detail, n := c11One(s, en, iv, last, probes)
				e.Count("evaluations")
				e.Count("states")
				e.Add("transitions", n)
				cs := c11Case{iso(s), iso(en), iv.String(), last, ""}
				if e.CaseNo()%50000 == 0 {
					e.Sample(cs)
				}
				if len(RefPartition(s, en, iv, last)) > 1 {
					e.Count("distinct_nontrivial")
				}
				if key != "" {
					e.Violation("C11:"+key+":"+iv.String(), detail, cs, nil)
				}
			}
		}
	}
	// window A: every pair of days in 2019-12-25 .. 2020-04-05, Align probed on every
	// day of [first-40, last+40]
	first, lastDay := day(2019, 12, 25), day(2020, 4, 5)
	var probes []time.Time
	for d := first.AddDate(0, 0, -40); !d.After(lastDay.AddDate(0, 0, 40)); d = d.AddDate(0, 0, 1) {
		probes = append(probes, d)
	}
	for s := first; !s.After(lastDay); s = s.AddDate(0, 0, 1) {
		if e.Expired() {
			return
		}
		for en := first; !en.After(lastDay); en = en.AddDate(0, 0, 1) {
			check(s, en, probes)
		}
	}
	// window A2: every pair of days around the end of a leap year (2020-12-31 is day 366)
	// and of the following ordinary year, Align probed on every day of [first-10, last+10]
	for _, y := range []int{2020, 2021, 2024} {
		f2, l2 := day(y, 12, 24), day(y+1, 1, 8)
		var pr []time.Time
		for d := f2.AddDate(0, 0, -10); !d.After(l2.AddDate(0, 0, 10)); d = d.AddDate(0, 0, 1) {
			pr = append(pr, d)
		}
		for s := f2; !s.After(l2); s = s.AddDate(0, 0, 1) {
			for en := s; !en.After(l2); en = en.AddDate(0, 0, 1) {
				check(s, en, pr)
			}
		}
	}
	// window A3: spans of centuries (arithmetic on durations and day counts must not
	// overflow or be estimated): daily only for the 300-year span
	for _, w := range [][2]time.Time{{day(1700, 1, 1), day(1992, 4, 12)}, {day(1700, 1, 1), day(2023, 12, 31)}, {day(1000, 1, 1), day(3000, 12, 31)}, {day(1, 1, 1), day(9999, 12, 31)}} {
		pr := []time.Time{w[0].AddDate(0, 0, -1), w[0], w[0].AddDate(0, 0, 1), w[0].AddDate(0, 0, 40), w[1].AddDate(0, 0, -1), w[1], w[1].AddDate(0, 0, 1), day(1706, 3, 31), day(1992, 4, 11)}
		for _, iv := range intervals {
			if iv == date.Daily && w[1].Year()-w[0].Year() > 350 {
				continue
			}
			for _, last := range []int{0, 1, 3} {
				if !e.Take() {
					continue
				}
				key, detail, n := c11One(w[0], w[1], iv, last, pr)
				e.Count("evaluations")
				e.Add("transitions", n)
				if key != "" {
					e.Violation("C11:"+key+":"+iv.String()+":long-span", detail, c11Case{iso(w[0]), iso(w[1]), iv.String(), last, ""}, nil)
				}
			}
		}
	}
	c11Command(e)
	if !e.Thorough() {
		return
	}
	// window B: every pair in 2020-12-20 .. 2021-03-05 (non-leap February)
	first, lastDay = day(2020, 12, 20), day(2021, 3, 5)
	probes = nil
	for d := first.AddDate(0, 0, -40); !d.After(lastDay.AddDate(0, 0, 40)); d = d.AddDate(0, 0, 1) {
		probes = append(probes, d)
	}
	for s := first; !s.After(lastDay); s = s.AddDate(0, 0, 1) {
		if e.Expired() {
			return
		}
		for en := first; !en.After(lastDay); en = en.AddDate(0, 0, 1) {
			check(s, en, probes)
		}
	}
	// window C: all pairs of {first,last day of every month and ISO week} 2019-2021,
	// Align probed on the boundary days +-1
	var bs []time.Time
	for d := day(2019, 1, 1); d.Before(day(2022, 1, 1)); d = d.AddDate(0, 0, 1) {
		nx, pv := d.AddDate(0, 0, 1), d.AddDate(0, 0, -1)
		if d.Day() == 1 || nx.Day() == 1 || d.Weekday() == time.Monday || d.Weekday() == time.Sunday {
			bs = append(bs, d)
		}
		_ = pv
	}
	for _, s := range bs {
		if e.Expired() {
			return
		}
		for _, en := range bs {
			pr := []time.Time{s.AddDate(0, 0, -1), s, s.AddDate(0, 0, 1), en.AddDate(0, 0, -1), en, en.AddDate(0, 0, 1),
				s.AddDate(0, 0, 45), en.AddDate(0, 0, -45), s.AddDate(0, -3, 0), en.AddDate(0, 3, 0)}
			check(s, en, pr)
		}
	}
}

func c11Replay(e *core.Env, data json.RawMessage) (bool, string) {
	var bc balCase
	if err := json.Unmarshal(data, &bc); err == nil && len(bc.Body) > 0 {
		key, detail, _ := c02One(e.Driver(), bc.Body, bc.Cfg)
		return key != "", key + " " + detail
	}
	var cs c11Case
	if err := json.Unmarshal(data, &cs); err != nil {
		return false, err.Error()
	}
	iv, _ := date.ParseInterval(cs.Interval)
	s, en := parseISO(cs.Start), parseISO(cs.End)
	var probes []time.Time
	for d := s.AddDate(0, 0, -80); !d.After(en.AddDate(0, 0, 80)) || !d.After(s.AddDate(0, 0, 80)); d = d.AddDate(0, 0, 1) {
		probes = append(probes, d)
	}
	key, detail, _ := c11One(s, en, iv, cs.Last, probes)
	return key != "", key + " " + detail
}

func init() {
	core.Register(&core.Check{
		ID: "C11", Level: "model_checking", Run: c11Run, Replay: c11Replay,
		Added:       "windows around the ends of 2020, 2021, 2024; spans of centuries; command level: 15 daily bookings of 2^i CHF through `balance` for every --from/--to pair x interval x --last x --diff, also with the local time zone east and west of UTC",
		QuickBudget: 80 * time.Second, ThoroughBudget: 12 * time.Minute,
		Rule: "every (start,end) pair of days of the calendar windows x 6 intervals x last in {0,1,2,3,50}; " +
			"each configuration is a state, each Align/Contains probe a transition; non-trivial = more than one period",
		Assumptions: []string{"dates outside 2019-2021 are represented by the enumerated leap/non-leap years only",
			"reference calendar uses Go's time package for civil-date arithmetic"},
	})
}
