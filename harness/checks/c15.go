package checks

import (
	"encoding/json"
	"fmt"
	"sort"
	"strings"
	"time"

	"kmc/core"
	"kmc/jr"

	"github.com/sboehler/knut/lib/syntax/directives"
)

// C15 — infer edits only the placeholder account.

type c15Case struct {
	Training, Target string
	Placeholder      string
	Picks            []int `json:",omitempty"`
	FullPerm         int   `json:",omitempty"` // explore all orders of map ranges of up to this many keys in lib/common/set
}

// bookingAccounts lists (credit, debit) of every booking of every transaction.
func bookingAccounts(f directives.File) [][2]string {
	var res [][2]string
	for _, d := range f.Directives {
		if t, ok := d.Directive.(directives.Transaction); ok {
			for _, b := range t.Bookings {
				res = append(res, [2]string{b.Credit.Extract(), b.Debit.Extract()})
			}
		}
	}
	return res
}

func c15Check(cs c15Case, inferOut, formatted string, exit int, stderr string) (string, string) {
	if exit != 0 {
		return "C15:unexpected-failure", fmt.Sprintf("exit %d: %s", exit, stderr)
	}
	fo, err, p := parseText(inferOut)
	if err != nil || p != "" {
		return "C15:output-does-not-parse", fmt.Sprintf("%v %s\noutput:\n%s", err, p, inferOut)
	}
	ff, err, p := parseText(formatted)
	if err != nil || p != "" {
		return "ENGINE", "formatted target does not parse"
	}
	// candidates: accounts occurring in training transactions (non-macro, not the placeholder)
	trainAccs := map[string]bool{}
	if ft, err, p := parseText(cs.Training); err == nil && p == "" {
		for _, ab := range bookingAccounts(ft) {
			if ab[0] == cs.Placeholder || ab[1] == cs.Placeholder || strings.HasPrefix(ab[0], "$") || strings.HasPrefix(ab[1], "$") {
				continue // bookings on the placeholder or on a macro carry no training information
			}
			trainAccs[ab[0]], trainAccs[ab[1]] = true, true
		}
	}
	bo, bf := bookingAccounts(fo), bookingAccounts(ff)
	if len(bo) != len(bf) {
		return "C15:bookings-changed", fmt.Sprintf("%d bookings in the output, %d in the input", len(bo), len(bf))
	}
	for i := range bf {
		for side := 0; side < 2; side++ {
			// "differs from the other account of the same booking": the other account as it
			// stands in the result (with the placeholder on both sides that is the account
			// inferred for the other side)
			orig, got, other := bf[i][side], bo[i][side], bo[i][1-side]
			if orig != cs.Placeholder {
				if got != orig {
					return "C15:non-placeholder-account-changed", fmt.Sprintf("booking %d: account %q became %q", i, orig, got)
				}
				continue
			}
			// candidates for this slot
			hasCandidate := false
			for a := range trainAccs {
				if a != other {
					hasCandidate = true
				}
			}
			switch {
			case !hasCandidate && got != orig:
				return "C15:replaced-without-candidate", fmt.Sprintf("booking %d: the training data offers no candidate, but the placeholder became %q", i, got)
			case hasCandidate && got == orig:
				// leaving the placeholder is not forbidden by the statement when a candidate exists? It
				// says each occurrence "is replaced"; report it.
				return "C15:placeholder-not-replaced", fmt.Sprintf("booking %d: candidates exist but the placeholder was kept", i)
			case hasCandidate && (!trainAccs[got] || got == other):
				return "C15:replacement-not-a-valid-candidate", fmt.Sprintf("booking %d: placeholder replaced by %q (other account %q, training accounts %v)", i, got, other, keysOf(trainAccs))
			}
		}
	}
	// everything else: token-wise identical to the formatted target
	to, tf := strings.Fields(inferOut), strings.Fields(formatted)
	if len(to) != len(tf) {
		return "C15:text-changed", fmt.Sprintf("token count %d vs %d\ninfer:\n%s\nformat:\n%s", len(to), len(tf), inferOut, formatted)
	}
	for i := range tf {
		if to[i] != tf[i] && tf[i] != cs.Placeholder {
			return "C15:text-changed", fmt.Sprintf("token %q became %q\ninfer:\n%s\nformat:\n%s", tf[i], to[i], inferOut, formatted)
		}
	}
	// gaps (comments, blank lines) byte-identical
	if gapsOf(fo, inferOut) != gapsOf(ff, formatted) {
		return "C15:comments-changed", fmt.Sprintf("text between directives differs\ninfer:\n%q\nformat:\n%q", gapsOf(fo, inferOut), gapsOf(ff, formatted))
	}
	return "", ""
}

func keysOf(m map[string]bool) []string {
	var ks []string
	for k := range m {
		ks = append(ks, k)
	}
	sort.Strings(ks)
	return ks
}

func c15One(e *core.Env, drv *core.Driver, cs c15Case, explore bool) (string, string, []int, core.ExploreStats) {
	drv.Files(map[string]string{"train.knut": cs.Training, "target.knut": cs.Target, "fmt.knut": cs.Target})
	f := drv.Run(nil, "format", "fmt.knut")
	if f.Exit != 0 {
		return "ENGINE", "format failed on the target: " + f.Stderr, nil, core.ExploreStats{}
	}
	formatted, _ := drv.ReadFile("fmt.knut")
	args := []string{"infer", "-t", "train.knut", "-a", cs.Placeholder, "target.knut"}
	var key, detail string
	var picks []int
	outcomes := map[string][]int{}
	var order []string
	bounds := core.Bounds{Map: core.Pick(e, 1, 2), Preempt: 0, Free: 0}
	if !explore {
		bounds = core.Bounds{}
	}
	x := core.Explorer{Bounds: bounds, Policies: explore, NoMap: !explore, MaxExec: 20000, Stop: e.Expired, Cache: true}
	if cs.FullPerm > 0 {
		// every order of the token set (ranges in lib/common/set), one deviation
		x = core.Explorer{Bounds: core.Bounds{Map: 1}, Policies: true, MaxExec: 60000, Stop: e.Expired, Cache: true, FullPerm: cs.FullPerm, FullPermSite: "set/set.go"}
	}
	st := x.Explore(func(c *core.Ctx) {
		o := drv.Run(c, args...)
		if ab := o.Abnormal(); ab != "" {
			if key == "" {
				key, detail, picks = "C15:abnormal", ab, c.Picks()
			}
			return
		}
		if k, d := c15Check(cs, o.Stdout, formatted, o.Exit, o.Stderr); k != "" && key == "" {
			key, detail, picks = k, d, c.Picks()
		}
		ok := o.Key()
		if _, seen := outcomes[ok]; !seen {
			outcomes[ok] = c.Picks()
			order = append(order, ok)
		}
	}, func(c *core.Ctx) bool { return key == "" && len(outcomes) < 2 })
	if key == "" {
		// the result is laid out like a formatted file ("the column alignment they imply"):
		// formatting it again changes nothing
		std0 := drv.Run(nil, args...)
		if std0.Exit == 0 {
			drv.Files(map[string]string{"train.knut": cs.Training, "target.knut": cs.Target, "again.knut": std0.Stdout})
			if f2 := drv.Run(nil, "format", "again.knut"); f2.Exit == 0 {
				if got, _ := drv.ReadFile("again.knut"); got != std0.Stdout {
					key, detail = "C15:result-not-in-formatted-layout", fmt.Sprintf("formatting the result of infer changes it\ninfer:\n%s\nformatted again:\n%s", std0.Stdout, got)
				}
			}
		}
	}
	if key == "" {
		// --inplace must leave exactly what the stdout mode prints. The target gets a first
		// line with a wide gap, so that the rewritten file is certainly shorter than the
		// original one (a rewrite that does not replace the file as a whole leaves a tail).
		wide := "2019-01-01 open" + strings.Repeat(" ", 200) + "Assets:Wide\n" + cs.Target
		drv.Files(map[string]string{"train.knut": cs.Training, "target.knut": cs.Target, "wide.knut": wide, "inplace.knut": wide})
		std := drv.Run(nil, "infer", "-t", "train.knut", "-a", cs.Placeholder, "wide.knut")
		ip := drv.Run(nil, "infer", "-t", "train.knut", "-a", cs.Placeholder, "--inplace", "inplace.knut")
		got, _ := drv.ReadFile("inplace.knut")
		switch {
		case ip.Abnormal() != "":
			key, detail = "C15:abnormal:inplace", ip.Abnormal()
		case ip.Exit != std.Exit:
			key, detail = "C15:inplace-differs", fmt.Sprintf("exit %d with --inplace, %d without", ip.Exit, std.Exit)
		case std.Exit == 0 && got != std.Stdout:
			key, detail = "C15:inplace-differs", fmt.Sprintf("file written by --inplace differs from the stdout result\nfile:\n%s\nstdout:\n%s", got, std.Stdout)
		case ip.Stdout != "":
			key, detail = "C15:inplace-differs", "--inplace also wrote to stdout: "+ip.Stdout
		}
	}
	if key == "" && len(outcomes) > 1 {
		key, detail, picks = "C15:choice-depends-on-map-order", "two map iteration orders give different results:\n"+order[0]+"\n---\n"+order[1], outcomes[order[1]]
	}
	if key != "" {
		detail += fmt.Sprintf("\nplaceholder: %s\ntraining:\n%s\ntarget:\n%s", cs.Placeholder, cs.Training, cs.Target)
	}
	return key, detail, picks, st
}

func c15Training(ph string) []string {
	t := []jr.Dir{
		jr.T("2020-01-02", "shop", jr.B("Assets:A", "Expenses:Food", "10", "CHF")),
		jr.T("2020-01-03", "rent pay", jr.B("Assets:A", "Expenses:Rent", "10", "CHF")),
		jr.T("2020-01-04", "shop", jr.B("Assets:A", "Expenses:Rent", "5", "CHF")),
		jr.T("2020-01-05", "refund shop", jr.B("Expenses:Food", "Assets:A", "10", "CHF")),
		jr.T("2020-01-06", "unknown", jr.B("Assets:A", ph, "10", "CHF")),
		jr.T("2020-01-07", "macro", jr.B("$m", "Expenses:Food", "1", "CHF")),
		// a candidate that is the widest account of the result in bytes but not in characters
		jr.T("2020-01-08", "two", jr.B("Assets:A", "Expenses:Cafés:Zürich", "2.50", "CHF")),
	}
	var res []string
	// every multiset of <= 3 transactions (combinations with repetition, in order)
	var rec func(start int, cur []jr.Dir)
	rec = func(start int, cur []jr.Dir) {
		res = append(res, "2020-01-01 open Assets:A\n# training\n"+jr.RenderAll(cur))
		if len(cur) == 3 {
			return
		}
		for i := start; i < len(t); i++ {
			rec(i, append(append([]jr.Dir(nil), cur...), t[i]))
		}
	}
	rec(0, nil)
	res = append(res, "", "# only a comment\n")
	return res
}

func c15Targets(ph string) []string {
	t := []jr.Dir{
		jr.T("2020-02-01", "shop", jr.B("Assets:A", ph, "10", "CHF")),
		jr.T("2020-02-02", "rent pay", jr.B(ph, "Assets:A", "5", "CHF")),
		jr.T("2020-02-03", "both", jr.B(ph, ph, "1", "CHF")),
		jr.T("2020-02-04", "two", jr.B("Assets:A", ph, "2.50", "CHF"), jr.B("Assets:A", "Expenses:Food", "1", "USD")),
		jr.T("2020-02-05", "none", jr.B("Assets:A", "Expenses:Food", "3", "CHF")),
		jr.T("2020-02-06", "shop", jr.B("Expenses:Food", ph, "10", "CHF")),
	}
	var res []string
	for i := range t {
		res = append(res, "# target\n2020-01-01 open   Assets:A\n\n"+t[i].Render()+"// trailing comment\n")
		for j := range t {
			res = append(res, t[i].Render()+"* between\n"+t[j].Render())
		}
	}
	res = append(res, "# nothing to do\n2020-01-01 open Assets:A\n")
	return res
}

func c15Run(e *core.Env) {
	drv := e.Driver()
	if e.Take() {
		cs := c15CrossedTies()
		key, detail, picks, st := c15One(e, drv, cs, true)
		e.Count("evaluations")
		e.AddStats(st)
		e.Note("crossed-ties input: %d map orders explored", st.Executions)
		if key == "ENGINE" {
			e.EngineError("%s", detail)
		} else if key != "" {
			cs.Picks = picks
			e.Violation(key, detail, cs, func() bool { k, _, _, _ := c15One(e, drv, cs, true); return k == key })
		}
	}
	if e.Take() {
		// a large target (700 transactions): "the choice is the same on every run" on the
		// real binary with 1, 2, 8 and all CPUs, and the race detector on a free run
		var sc scenario
		for _, s := range raceOnlyScenarios() {
			if s.Name == "big-infer-700" {
				sc = s
			}
		}
		drv.Files(sc.Files)
		first := ""
		for i, procs := range []string{"1", "8", "", "2", "8", ""} {
			o := drv.RunBinaryProcs(procs, sc.Args...)
			e.Count("evaluations")
			e.Count("large_target_runs")
			if o.Exit != 0 || o.Panic != "" {
				e.Violation("C15:unexpected-failure:large-target", clip(o.Stderr, 1000), c15Case{}, nil)
				break
			}
			if strings.Contains(o.Stdout, "Expenses:TBD") {
				e.Violation("C15:placeholder-not-replaced:large-target", "candidates exist for every booking", c15Case{}, nil)
				break
			}
			if i == 0 {
				first = o.Stdout
			} else if o.Stdout != first {
				e.Violation("C15:choice-differs-between-runs:large-target", fmt.Sprintf("GOMAXPROCS=%q gives a different result than GOMAXPROCS=1 on the same 700-transaction target", procs), c15Case{}, nil)
				break
			}
		}
		raceTier(e, core.Pick(e, 2, 8), "C15", "big-infer")
	}
	if e.Take() {
		// training data in a file that two other files include (a tie that one more copy
		// of that file would break): the same choice under every loader schedule
		files := map[string]string{
			"train.knut":  "2020-01-01 open Assets:A\ninclude \"t1.knut\"\ninclude \"t2.knut\"\n",
			"t1.knut":     "include \"shared.knut\"\n2020-01-02 \"shop\"\nAssets:A Expenses:Alpha 5 CHF\n\n2020-01-03 \"shop\"\nAssets:A Expenses:Alpha 5 CHF\n\n",
			"t2.knut":     "include \"shared.knut\"\n2020-01-04 \"shop\"\nAssets:A Expenses:Zeta 5 CHF\n\n",
			"shared.knut": "2020-01-05 \"shop\"\nAssets:A Expenses:Zeta 5 CHF\n\n",
			"target.knut": "2020-02-01 \"shop\"\nAssets:A Expenses:TBD 5 CHF\n\n",
		}
		diamondSchedules(e, drv, "C15", "training", files, []string{"infer", "-t", "train.knut", "target.knut"}, []string{"Expenses:Alpha"}, 1)
	}
	for _, ph := range []string{"Expenses:TBD", "Assets:X"} {
		trainings, targets := c15Training(ph), c15Targets(ph)
		e.Note("placeholder %s: %d training journals x %d target journals", ph, len(trainings), len(targets))
		for ti, tr := range trainings {
			if e.Expired() {
				return
			}
			if e.Shard == 0 {
				e.Count("states")
				e.Count("transitions")
			}
			for gi, tg := range targets {
				if !e.Take() {
					continue
				}
				cs := c15Case{Training: tr, Target: tg, Placeholder: ph}
				explore := (ti+gi)%core.Pick(e, 4, 2) == 0
				key, detail, picks, st := c15One(e, drv, cs, explore)
				e.Count("evaluations")
				e.AddStats(st)
				if strings.Contains(tg, ph) && strings.Contains(tr, "\"") {
					e.Count("distinct_nontrivial")
				}
				e.Distinct(tr + "|" + tg)
				if e.CaseNo()%2003 == 0 {
					e.Sample(map[string]any{"placeholder": ph, "training": clip(tr, 200), "target": clip(tg, 200), "map_orders_explored": st.Executions})
				}
				if key == "ENGINE" {
					e.EngineError("%s", detail)
					continue
				}
				if key != "" {
					cs.Picks = picks
					e.Violation(key, detail, cs, func() bool { k, _, _, _ := c15One(e, drv, cs, explore); return k == key })
				}
			}
		}
	}
}

// c15CrossedTies: two candidates whose scores are mathematically equal (same prior, same
// multiset of per-token likelihoods) but attached to different words, plus a token that
// the training never saw: a score summed in floating point in an order that depends on
// map iteration breaks the tie differently from run to run.
func c15CrossedTies() c15Case {
	var tr []jr.Dir
	for i, d := range []string{"purchase migros basel card", "purchase basel card", "purchase card", "purchase"} {
		tr = append(tr, jr.T(fmt.Sprintf("2023-01-%02d", 5+7*i), d, jr.B("Assets:Bank", "Expenses:Groceries", "50", "CHF")))
	}
	for i, d := range []string{"purchase migros basel card", "purchase migros card", "purchase migros", "purchase"} {
		tr = append(tr, jr.T(fmt.Sprintf("2023-02-%02d", 5+7*i), d, jr.B("Assets:Bank", "Expenses:Household", "50", "CHF")))
	}
	tg := []jr.Dir{jr.T("2023-03-01", "migros basel card bahnhof", jr.B("Assets:Bank", "Expenses:TBD", "25", "CHF")),
		jr.T("2023-03-02", "migros basel card kiosk", jr.B("Assets:Bank", "Expenses:TBD", "26", "CHF"))}
	return c15Case{Training: jr.RenderAll(tr), Target: jr.RenderAll(tg[:1]), Placeholder: "Expenses:TBD", FullPerm: 7}
}

func c15Replay(e *core.Env, data json.RawMessage) (bool, string) {
	var cs c15Case
	if err := json.Unmarshal(data, &cs); err != nil {
		return false, err.Error()
	}
	key, detail, _, _ := c15One(e, e.Driver(), cs, true)
	return key != "", key + "\n" + detail
}

func init() {
	core.Register(&core.Check{
		ID: "C15", Level: "model_checking", Run: c15Run, Replay: c15Replay,
		Added:       "crossed-ties case under all 7! token orders; candidate with multi-byte letters; formatting the result again changes nothing; --inplace compared on a target that certainly shrinks; placeholder on both sides must receive two different accounts; 700-transaction target on the binary with 1, 2, 8, all CPUs + race detector",
		QuickBudget: 100 * time.Second, ThoroughBudget: 14 * time.Minute,
		Rule: "training journals: every multiset of <= 3 transactions over 6 templates (two descriptions, ties between candidates, a booking on the placeholder itself, a macro booking) plus empty and comment-only files; target journals: every single and every ordered pair of 6 templates (placeholder on credit, on debit, on both sides, in one of two bookings, absent, other account = a candidate) with comments/headings/irregular spacing; placeholder in {Expenses:TBD, Assets:X}; " +
			"each run under every map iteration order within 1 (quick, every 4th case) or 2 (thorough, every 2nd case) deviations + 2 global policies; oracle: output parses, bookings other than placeholders untouched, replacement is a training account different from the other account, no candidate => unchanged, all other tokens and the inter-directive text identical to `knut format` of the target, one outcome over all map orders; non-trivial = target contains the placeholder and training has transactions",
		Assumptions: []string{"'candidate' = an account occurring in a training booking that does not involve the placeholder or a macro"},
	})
}
