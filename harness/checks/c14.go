package checks

import (
	"encoding/json"
	"fmt"
	"os"
	"path/filepath"
	"strings"
	"time"

	"kmc/core"
	"kmc/jr"
)

// C14 — commands fail cleanly on every input: arbitrary contents, every include graph
// on three files (cycles, self-includes, missing targets, directories), every flag
// value class. Non-termination is recognised by the scheduler's step horizon.

type c14Case struct {
	Files map[string]string
	Dirs  []string `json:",omitempty"`
	Args  []string
	Class string
	// expectations
	WantOK   bool `json:",omitempty"` // must exit 0
	WantFail bool `json:",omitempty"` // must exit != 0
	// Extreme: run on the real binary under a 4 GiB address-space limit and a 20 s
	// deadline (normal runs of these journals take < 20 ms and < 20 MB)
	Extreme bool `json:",omitempty"`
}

var c14Commands = [][]string{
	{"check"}, {"check", "--write"}, {"balance", "--color=false"}, {"balance", "--color=false", "-v", "CHF"}, {"print"},
	{"format"}, {"infer", "-t", "train.knut"}, {"transcode", "-v", "CHF"}, {"portfolio", "returns", "-v", "CHF"}, {"portfolio", "weights", "-v", "CHF", "--color=false"},
}

func reportCommand(args []string) bool {
	switch args[0] {
	case "balance", "print", "transcode", "infer":
		return true
	case "check":
		return len(args) > 1 && args[1] == "--write"
	}
	return false
}

func c14One(drv *core.Driver, cs c14Case) (string, string, *core.Outcome) {
	drv.Files(cs.Files)
	for _, d := range cs.Dirs {
		os.MkdirAll(filepath.Join(drv.Dir, d), 0o755)
	}
	defer func() {
		for _, d := range cs.Dirs {
			os.RemoveAll(filepath.Join(drv.Dir, d))
		}
	}()
	var out *core.Outcome
	if cs.Extreme {
		out = drv.RunBinaryLimited(20*time.Second, 4<<30, cs.Args...)
	} else {
		out = drv.Run(nil, cs.Args...)
	}
	cmd := cs.Args[0]
	if cmd == "portfolio" || cmd == "check" && len(cs.Args) > 1 && cs.Args[1] == "--write" {
		cmd += "_" + strings.TrimPrefix(cs.Args[1], "--")
	}
	ctx := fmt.Sprintf("\ncommand: knut %s\nfiles: %s", strings.Join(cs.Args, " "), clip(fmt.Sprintf("%q", cs.Files), 1500))
	switch {
	case cs.Extreme && out.Horizon:
		return "C14:hang:" + cs.Class, "the command was still running after 20 s (a run with ordinary flag values takes < 20 ms)" + ctx, out
	case cs.Extreme && out.Panic != "" && (strings.Contains(out.Panic, "out of memory") || strings.Contains(out.Panic, "cannot allocate")):
		return "C14:memory-exhaustion:" + cs.Class, "the command needs more than 4 GiB: " + clip(out.Panic, 300) + ctx, out
	case out.Panic != "":
		return "C14:panic:" + panicSite(out.Panic), "the command panics: " + clip(out.Panic, 1500) + ctx, out
	case out.Deadlock:
		return "C14:deadlock:" + cmd, out.Abnormal() + ctx, out
	case out.Horizon:
		return "C14:non-termination:" + cs.Class, out.Abnormal() + fmt.Sprintf(" (%d goroutines created)", out.Goroutines) + ctx, out
	}
	if out.Exit != 0 && strings.TrimSpace(out.Stderr) == "" {
		return "C14:failure-without-diagnostic:" + cmd, fmt.Sprintf("exit %d with empty stderr", out.Exit) + ctx, out
	}
	if out.Exit != 0 && reportCommand(cs.Args) && out.Stdout != "" {
		return "C14:output-on-failure:" + cmd, "failing report command wrote to stdout:\n" + clip(out.Stdout, 500) + ctx, out
	}
	if cs.WantFail && out.Exit == 0 {
		return "C14:error-ignored:" + cs.Class + ":" + cmd, "an error in a loaded file did not fail the command" + ctx, out
	}
	if cs.WantOK && out.Exit != 0 {
		return "C14:spurious-failure:" + cs.Class + ":" + cmd, "exit " + fmt.Sprint(out.Exit) + ": " + out.Stderr + ctx, out
	}
	if out.MaxLive > 64+2*len(cs.Files) { // the loader uses one goroutine per file
		return "C14:goroutine-blowup:" + cs.Class, fmt.Sprintf("%d goroutines alive at once", out.MaxLive) + ctx, out
	}
	return "", "", out
}

// panicSite extracts the knut function in which the panic arose (for a stable key).
func panicSite(p string) string {
	for _, l := range strings.Split(p, "\n") {
		l = strings.TrimSpace(l)
		if strings.HasPrefix(l, "github.com/sboehler/knut/") && !strings.Contains(l, "verifrt") && !strings.Contains(l, "vsched") {
			l = strings.TrimPrefix(l, "github.com/sboehler/knut/")
			if i := strings.Index(l, "("); i > 0 {
				l = l[:i]
			}
			return l
		}
	}
	first := strings.SplitN(p, "\n", 2)[0]
	return scrub(first)
}

const c14Valid = "2019-12-31 open Assets:Bank\n2019-12-31 open Expenses:Food\n2019-12-31 open Expenses:TBD\n2019-12-31 open Equity:Equity\n2020-01-30 price USD 0.9 CHF\n2020-01-30 \"x\"\nAssets:Bank Expenses:Food 10 CHF\n\n2020-02-29 \"y\"\nAssets:Bank Expenses:TBD 5 USD\n\n"

func c14SemanticErrors() map[string]string {
	base := "2019-12-31 open Assets:Bank\n2019-12-31 open Expenses:Food\n"
	return map[string]string{
		"invalid-account-type": base + "2020-01-01 open Foo:Bar\n",
		"bad-date":             base + "2020-13-45 open Assets:X\n",
		"zero-price":           base + "2020-01-01 price USD 0 CHF\n2020-01-02 \"t\"\nAssets:Bank Expenses:Food 1 USD\n\n",
		"inverted-accrual":     base + "@accrue monthly 2020-03-31 2020-01-01 Assets:Bank\n2020-01-02 \"t\"\nAssets:Bank Expenses:Food 1 CHF\n\n",
		"year-one-accrual":     base + "@accrue monthly 0001-01-01 0001-03-01 Assets:Bank\n2020-01-02 \"t\"\nAssets:Bank Expenses:Food 1 CHF\n\n",
		"year-one-date":        base + "0001-01-01 \"t\"\nAssets:Bank Expenses:Food 1 CHF\n\n",
		"one-day-accrual":      base + "@accrue daily 2020-01-01 2020-01-01 Assets:Bank\n2020-01-02 \"t\"\nAssets:Bank Expenses:Food 1 CHF\n\n",
		"bad-commodity":        base + "2020-01-02 \"t\"\nAssets:Bank Expenses:Food 1 C_H\n\n",
		"huge-number":          base + "2020-01-02 \"t\"\nAssets:Bank Expenses:Food " + strings.Repeat("9", 400) + "." + strings.Repeat("9", 400) + " CHF\n\n",
		"unopened-account":     "2020-01-02 \"t\"\nAssets:Bank Expenses:Food 1 CHF\n\n",
		"only-prices":          "2020-01-01 price USD 0.9 CHF\n",
		"only-opens":           base,
		"empty":                "",
		"only-comments":        "# nothing\n\n* here\n",
		"nul-bytes":            "\x00\x00",
		"include-directory":    "include \"d\"\n",
		"include-empty-path":   "include \"\"\n",
		"include-missing":      "include \"missing.knut\"\n",
	}
}

func c14FlagCases() []c14Case {
	files := map[string]string{"j.knut": c14Valid, "train.knut": c14Valid, "u.yaml": "Equity:US: [AAPL]\nCash: [USD, CHF]\n", "bad.yaml": "Equity: [AAPL\n"}
	var cs []c14Case
	add := func(args ...string) {
		cs = append(cs, c14Case{Files: files, Args: args, Class: "flags"})
	}
	// transcode / portfolio without valuation, unknown commodity, infer without -t
	add("transcode", "j.knut")
	add("transcode", "-v", "", "j.knut")
	add("transcode", "-v", "C_H", "j.knut")
	add("transcode", "-v", "XYZ", "j.knut")
	add("portfolio", "returns", "j.knut")
	add("portfolio", "weights", "j.knut")
	add("portfolio", "weights", "-v", "XYZ", "j.knut")
	add("portfolio", "weights", "-v", "CHF", "--universe", "u.yaml", "j.knut")
	add("portfolio", "weights", "-v", "CHF", "--universe", "bad.yaml", "j.knut")
	add("portfolio", "weights", "-v", "CHF", "--universe", "nope.yaml", "j.knut")
	add("portfolio", "weights", "-v", "CHF", "--universe", "u.yaml", "-m", "1,.", "--csv", "j.knut")
	add("infer", "j.knut")
	add("infer", "-t", "missing.knut", "j.knut")
	add("infer", "-t", "train.knut", "missing.knut")
	add("infer", "-t", "train.knut", "-a", "", "j.knut")
	add("infer", "-t", "train.knut", "-a", "Assets:Bank", "j.knut")
	add("format")
	add("format", "missing.knut")
	add("format", "j.knut", "missing.knut")
	add("check")
	add("check", "a", "b")
	add("print", "missing.knut")
	add("balance", "missing.knut")
	for _, cmd := range [][]string{{"balance", "--color=false"}, {"portfolio", "returns", "-v", "CHF"}, {"portfolio", "weights", "-v", "CHF", "--color=false"}} {
		for _, fl := range [][]string{
			{"--from", "2020-03-01", "--to", "2020-01-01"}, {"--from", "2021-01-01"}, {"--to", "2019-01-01"}, {"--from", "0001-01-01"}, {"--from", "9999-12-31"},
			{"--from", "2020-02-30"}, {"--last", "-1"}, {"--last", "0"}, {"--last", "1000000", "--days"}, {"--days", "--weeks"},
			{"--years", "--from", "2020-03-01", "--to", "2020-01-01"}, {"--days", "--to", "2019-01-01"}, {"--quarters", "--last", "1", "--from", "2021-01-01"},
		} {
			add(append(append(append([]string(nil), cmd...), fl...), "j.knut")...)
		}
	}
	for _, fl := range [][]string{
		{"--digits", "-1"}, {"--digits", "100"}, {"--digits", "-100"}, {"--digits", "x"}, {"-k", "--digits", "3"},
		{"-m", "x,Assets"}, {"-m", "1:x,Assets"}, {"-m", "1:2:3,Assets"}, {"-m", "-1,Assets"}, {"-m", "1:-1,Assets"}, {"-m", "5:5,."}, {"-m", ""}, {"-m", "1,("}, {"-m", "1"},
		{"--account", "("}, {"--commodity", "["}, {"--remap", "*"}, {"-s", "("}, {"-v", "C_H"}, {"-v", "XYZ"}, {"-v", ""},
		{"--account", "Nope"}, {"--commodity", "Nope"}, {"--account", "Nope", "-v", "CHF"}, {"--close=maybe"}, {"--csv", "--digits", "2"}, {"--unknown"},
		{"-m", "0,."}, {"-m", "0,.", "-v", "CHF"}, {"--remap", ".", "-m", "1,."},
	} {
		add(append(append([]string{"balance", "--color=false"}, fl...), "j.knut")...)
	}
	// extreme numeric flag values (run on the real binary under resource limits)
	ext := func(class string, args ...string) {
		cs = append(cs, c14Case{Files: files, Args: args, Class: class, Extreme: true})
	}
	for _, n := range []string{"2147483647", "-2147483648", "100000000"} {
		ext("extreme-digits", "balance", "--color=false", "--digits", n, "j.knut")
		ext("extreme-digits", "balance", "--color=false", "--csv", "--digits", n, "j.knut")
		ext("extreme-digits", "portfolio", "weights", "-v", "CHF", "--color=false", "--digits", n, "j.knut")
		ext("extreme-last", "balance", "--color=false", "--days", "--last", n, "j.knut")
		ext("extreme-last", "portfolio", "returns", "-v", "CHF", "--days", "--last", n, "j.knut")
		ext("extreme-mapping", "balance", "--color=false", "-m", n+",.", "j.knut")
		ext("extreme-mapping", "balance", "--color=false", "-m", "1:"+n+",.", "j.knut")
	}
	// small inputs that must not cost more than linear time and memory: an account name of
	// 30 000 segments (60 KB), 20 files of two lines each including the next one twice
	// (2^20 paths through 21 files), a device file as include target
	big := map[string]string{"deep.knut": "2000-01-01 open Assets" + strings.Repeat(":a", 30000) + "\n", "zero.knut": "include \"" + strings.Repeat("../", 16) + "dev/zero\"\n"}
	for i := 0; i < 20; i++ {
		big[fmt.Sprintf("l%d.knut", i)] = strings.Repeat(fmt.Sprintf("include \"l%d.knut\"\n", i+1), 2)
	}
	big["l20.knut"] = "2020-01-01 price USD 1 CHF\n"
	for _, a := range [][]string{{"check", "deep.knut"}, {"balance", "--color=false", "deep.knut"}, {"check", "l0.knut"}, {"print", "l0.knut"}, {"check", "zero.knut"}, {"check", strings.Repeat("../", 16) + "dev/zero"}} {
		cs = append(cs, c14Case{Files: big, Args: a, Class: "extreme-input", Extreme: true})
	}
	for _, m := range []string{"9223372036854775807:1,.", "1:9223372036854775807,.", "9223372036854775807:9223372036854775807,.", "9223372036854775807,."} {
		ext("extreme-mapping", "portfolio", "weights", "-v", "CHF", "--color=false", "-m", m, "j.knut")
		ext("extreme-mapping", "portfolio", "weights", "-v", "CHF", "--color=false", "--universe", "u.yaml", "-m", m, "j.knut")
		ext("extreme-mapping", "balance", "--color=false", "-m", m, "j.knut")
		ext("extreme-mapping", "balance", "--color=false", "-v", "CHF", "-m", m, "j.knut")
	}
	ext("extreme-window", "balance", "--color=false", "--days", "--from", "0001-01-01", "--to", "9999-12-31", "j.knut")
	ext("extreme-window", "portfolio", "returns", "-v", "CHF", "--days", "--from", "0001-01-01", "--to", "9999-12-31", "j.knut")
	ext("extreme-window", "portfolio", "weights", "-v", "CHF", "--color=false", "--days", "--from", "0001-01-01", "--to", "9999-12-31", "j.knut")
	return cs
}

func c14Run(e *core.Env) {
	drv := e.Driver()
	drv.Horizon = 4000
	try := func(cs c14Case, nontrivial bool) {
		if !e.Take() {
			return
		}
		key, detail, out := c14One(drv, cs)
		e.Count("evaluations")
		e.Count("states")
		e.Count("transitions")
		if nontrivial {
			e.Count("distinct_nontrivial")
		}
		if out != nil {
			e.Distinct(out.Key())
		}
		if e.CaseNo()%3001 == 0 {
			e.Sample(map[string]any{"class": cs.Class, "args": cs.Args, "files": clipFiles(cs.Files)})
		}
		if key != "" {
			e.Violation(key, detail, cs, func() bool { k, _, _ := c14One(drv, cs); return k == key })
		}
	}
	withFile := func(cmd []string, name string) []string { return append(append([]string(nil), cmd...), name) }
	// (iii) flags
	for _, cs := range c14FlagCases() {
		try(cs, true)
	}
	// (i) contents
	toks := c07Tokens()
	depth := core.Pick(e, 3, 4)
	var seq []string
	var rec func(d int)
	rec = func(d int) {
		if e.Expired() {
			return
		}
		text := strings.Join(seq, " ")
		for _, cmd := range c14Commands {
			try(c14Case{Files: map[string]string{"j.knut": text, "train.knut": c14Valid}, Args: withFile(cmd, "j.knut"), Class: "content"}, d >= 2)
		}
		if d == depth {
			return
		}
		for _, t := range toks {
			if len(t) > 1000 && d > 0 {
				continue
			}
			seq = append(seq, t)
			rec(d + 1)
			seq = seq[:len(seq)-1]
		}
	}
	rec(0)
	e.SetBound("content_token_depth", depth)
	for name, text := range c14SemanticErrors() {
		for _, cmd := range c14Commands {
			cs := c14Case{Files: map[string]string{"j.knut": text, "train.knut": c14Valid}, Args: withFile(cmd, "j.knut"), Class: "semantic-" + name}
			if name == "include-directory" {
				cs.Dirs = []string{"d"}
			}
			try(cs, true)
			// the training file of infer is loaded through the recursive loader as well
			if cmd[0] == "infer" {
				try(c14Case{Files: map[string]string{"j.knut": c14Valid, "train.knut": text}, Dirs: cs.Dirs, Args: withFile(cmd, "j.knut"), Class: "semantic-training-" + name}, true)
			}
		}
	}
	// (iv) termination under every schedule within the deviation bound, for the commands
	// whose pipeline stages share the registries (valuation + --remap, transcode) and for
	// the loader with an error in an included file
	for _, sc := range allScenarios(false) {
		if !(strings.Contains(sc.Name, "--remap") || strings.Contains(sc.Name, "transcode") || sc.Name == "load-flat-model-in-a" || sc.Name == "load-deep-diamond-check") {
			continue
		}
		if !e.Take() {
			continue
		}
		drv.Files(sc.Files)
		var key, detail string
		var picks []int
		x := core.Explorer{Bounds: core.Pick(e, core.Bounds{Preempt: 1, Free: 2, Total: 2}, core.Bounds{Preempt: 2, Free: 2, Total: 3}), NoMap: true, Cache: true, MaxExec: core.Pick(e, 40000, 400000), Stop: e.Expired}
		st := x.Explore(func(c *core.Ctx) {
			o := drv.Run(c, sc.Args...)
			if o.Pruned || key != "" {
				return
			}
			switch {
			case o.Panic != "":
				key, detail, picks = "C14:panic:"+panicSite(o.Panic)+":schedule", clip(o.Panic, 1500), c.Picks()
			case o.Deadlock:
				key, detail, picks = "C14:deadlock:"+sc.Args[0]+":schedule", o.Abnormal(), c.Picks()
			case o.Horizon:
				key, detail, picks = "C14:non-termination:schedule", o.Abnormal(), c.Picks()
			case o.Exit != 0 && strings.TrimSpace(o.Stderr) == "":
				key, detail, picks = "C14:failure-without-diagnostic:"+sc.Args[0]+":schedule", "", c.Picks()
			}
		}, func(c *core.Ctx) bool { return key == "" })
		e.AddStats(st)
		e.Add("evaluations", st.Executions)
		e.Add("schedules_explored", st.Executions-st.Pruned)
		e.SetBound("schedule_deviations_"+sc.Name, st.BoundCompleted)
		if key != "" {
			e.Violation(key, detail+"\nscenario "+sc.Name+": knut "+strings.Join(sc.Args, " "), c19Case{Scenario: sc.Name, Picks: picks, Tier: e.Tier}, func() bool {
				drv.Files(sc.Files)
				o := drv.Run(core.NewReplayCtxNoMap(picks, false), sc.Args...)
				return o.Abnormal() != ""
			})
		}
	}
	// (v) free-running stress on the real binary (all CPUs): a valid journal in which new
	// asset accounts holding a priced commodity appear every day (so that the valuation
	// stage keeps creating accounts while later stages read the registries); every command
	// must end within 60 s (normal: well under a second) with exit 0 and a report
	if e.Take() {
		files := c14StressFiles()
		drv.Files(files)
		reps := core.Pick(e, 3, 12)
		for _, cmd := range [][]string{
			{"balance", "--color=false", "-v", "CHF", "--remap", "Income|Expenses", "stress.knut"},
			{"balance", "--color=false", "-v", "CHF", "--remap", "Assets", "-m", "2,Assets", "--months", "stress.knut"},
			{"transcode", "-v", "CHF", "stress.knut"}, {"print", "stress.knut"}, {"check", "stress.knut"},
			{"portfolio", "weights", "-v", "CHF", "--color=false", "--months", "stress.knut"}, {"portfolio", "returns", "-v", "CHF", "--months", "stress.knut"},
			{"portfolio", "returns", "-v", "CHF", "--account", "Assets:Portfolio", "--commodity", "STK|CHF", "stress.knut"},
			{"check", "multi.knut"}, {"balance", "--color=false", "--months", "multi.knut"},
		} {
			for i := 0; i < reps; i++ {
				o := drv.RunBinaryFree(60*time.Second, cmd...)
				e.Count("evaluations")
				e.Count("free_running_stress_runs")
				what := ""
				switch {
				case o.Horizon:
					what = "C14:hang:stress:" + cmd[0]
				case o.Panic != "":
					what = "C14:panic:stress:" + cmd[0]
				case o.Exit != 0:
					what = "C14:spurious-failure:stress:" + cmd[0]
				case o.Stdout == "" && cmd[0] != "check":
					what = "C14:no-output:stress:" + cmd[0]
				}
				if what != "" {
					e.Violation(what, fmt.Sprintf("run %d of `knut %s` on a valid 200-day journal (free-running, all CPUs): exit %d, killed after 60 s: %v\n%s", i+1, strings.Join(cmd, " "), o.Exit, o.Horizon, clip(o.Stderr, 1500)),
						c14Case{Args: cmd, Class: "stress"}, nil)
					break
				}
			}
		}
	}
	// (ii-b) wide include trees: a root that includes w files each of which includes one
	// more file (2w+1 files), valid or with an error planted in the last leaf
	for _, w := range []int{10, 40, 70} {
		for _, errKind := range []string{"", "2020-01-09 opn Assets:X\n", "2020-02-30 open Assets:X\n"} {
			files := map[string]string{}
			var rb strings.Builder
			for i := 0; i < w; i++ {
				fmt.Fprintf(&rb, "include \"m%02d.knut\"\n", i)
				files[fmt.Sprintf("m%02d.knut", i)] = fmt.Sprintf("2020-01-02 price USD 0.9%d CHF\ninclude \"l%02d.knut\"\n", i%10, i)
				files[fmt.Sprintf("l%02d.knut", i)] = fmt.Sprintf("2020-01-03 price EUR 1.1%d CHF\n", i%10)
			}
			files[fmt.Sprintf("l%02d.knut", w-1)] += errKind
			files["f0.knut"] = rb.String()
			for _, cmd := range [][]string{{"check"}, {"print"}, {"balance", "--color=false"}} {
				try(c14Case{Files: files, Args: withFile(cmd, "f0.knut"), Class: "include-wide", WantOK: errKind == "", WantFail: errKind != ""}, true)
			}
		}
	}
	// (ii) include graphs on three files
	names := []string{"f0.knut", "f1.knut", "f2.knut"}
	for g := 0; g < 512; g++ {
		if e.Expired() {
			return
		}
		// reachability and cycle detection on the reachable part
		adj := [3][]int{}
		for i := 0; i < 3; i++ {
			for j := 0; j < 3; j++ {
				if g&(1<<(i*3+j)) != 0 {
					adj[i] = append(adj[i], j)
				}
			}
		}
		reach := map[int]bool{}
		cyclic := false
		var dfs func(v int, stack map[int]bool)
		dfs = func(v int, stack map[int]bool) {
			if stack[v] {
				cyclic = true
				return
			}
			if len(stack) > 3 {
				return
			}
			reach[v] = true
			stack[v] = true
			for _, w := range adj[v] {
				dfs(w, stack)
			}
			delete(stack, v)
		}
		dfs(0, map[int]bool{})
		for errPos := -1; errPos < 6; errPos++ {
			// errPos 0..2: syntax error in file errPos; 3..5: model-level error (impossible date)
			errKind := "2020-01-09 opn Assets:X\n"
			if errPos >= 3 {
				errKind = "2020-02-30 open Assets:X\n"
			}
			errFile := errPos
			if errPos >= 3 {
				errFile = errPos - 3
			}
			files := map[string]string{}
			for i := 0; i < 3; i++ {
				var b strings.Builder
				for _, j := range adj[i] {
					fmt.Fprintf(&b, "include \"%s\"\n", names[j])
				}
				fmt.Fprintf(&b, "2020-01-0%d price USD 0.9%d CHF\n", i+1, i)
				if i == errFile && errPos >= 0 {
					b.WriteString(errKind)
				}
				files[names[i]] = b.String()
			}
			for _, cmd := range [][]string{{"check"}, {"print"}, {"balance", "--color=false"}, {"infer", "-t", "f0.knut"}} {
				cs := c14Case{Files: files, Args: withFile(cmd, "f0.knut"), Class: "include-graph"}
				if cyclic {
					cs.Class = "include-cycle"
				} else if cmd[0] != "infer" {
					cs.WantFail = errPos >= 0 && reach[errFile]
					cs.WantOK = !cs.WantFail
				} else {
					cs.WantFail = errPos >= 0 && reach[errFile] && errPos < 3
				}
				try(cs, true)
			}
		}
	}
}

func clipFiles(fs map[string]string) map[string]string {
	res := map[string]string{}
	for k, v := range fs {
		res[k] = clip(v, 120)
	}
	return res
}

// c14StressFiles: the growing single-file journal and the same kind of journal split over
// eight files with accruals in each.
func c14StressFiles() map[string]string {
	files := map[string]string{"stress.knut": c14StressJournal()}
	var rootInc strings.Builder
	rootInc.WriteString("2000-01-01 open Assets:Bank\n2000-01-01 open Assets:Prepaid\n2000-01-01 open Expenses:Rent\n")
	for f := 0; f < 8; f++ {
		fmt.Fprintf(&rootInc, "include \"acc%d.knut\"\n", f)
		var fb strings.Builder
		for k := 0; k < 300; k++ {
			fmt.Fprintf(&fb, "@accrue monthly 2000-%02d-01 2001-%02d-28 Assets:Prepaid\n2000-%02d-%02d \"rent %d %d\"\nAssets:Bank Expenses:Rent %d CHF\n\n", 1+k%12, 1+(k+f)%12, 1+k%12, 1+k%28, f, k, 100+k)
		}
		files[fmt.Sprintf("acc%d.knut", f)] = fb.String()
	}
	files["multi.knut"] = rootInc.String()
	return files
}

func c14StressJournal() string {
	var b strings.Builder
	b.WriteString("2000-01-01 open Equity:Opening\n2000-01-01 open Assets:Cash\n")
	for k := 0; k < 40; k++ {
		fmt.Fprintf(&b, "2000-01-01 open Expenses:E%d\n", k)
	}
	b.WriteString("2000-01-01 price STK 100 CHF\n\n")
	for d := 1; d <= 200; d++ {
		date := fmt.Sprintf("%04d-%02d-%02d", 2000+d/336, (d%336)/28+1, d%28+1)
		fmt.Fprintf(&b, "%s price STK %d CHF\n\n", date, 100+d)
		for k := 0; k < 4; k++ {
			fmt.Fprintf(&b, "%s open Assets:Portfolio:D%dK%d\n\n%s \"buy\"\nEquity:Opening Assets:Portfolio:D%dK%d 1 STK\n\n", date, d, k, date, d, k)
		}
		for f := 0; f < 30; f++ {
			fmt.Fprintf(&b, "%s \"groceries %d\"\nAssets:Cash Expenses:E%d 1 CHF\n\n", date, f, f%40)
		}
	}
	return b.String()
}

func c14Replay(e *core.Env, data json.RawMessage) (bool, string) {
	var cs c14Case
	if err := json.Unmarshal(data, &cs); err != nil {
		return false, err.Error()
	}
	drv := e.Driver()
	drv.Horizon = 4000
	if cs.Class == "stress" {
		drv.Files(c14StressFiles())
		for i := 0; i < 12; i++ {
			if o := drv.RunBinaryFree(60*time.Second, cs.Args...); o.Horizon || o.Panic != "" || o.Exit != 0 {
				return true, fmt.Sprintf("run %d: exit %d killed=%v\n%s", i+1, o.Exit, o.Horizon, clip(o.Stderr, 1500))
			}
		}
		return false, "12 free-running runs ended normally"
	}
	key, detail, _ := c14One(drv, cs)
	return key != "", key + "\n" + detail
}

var _ = jr.Open

func init() {
	core.Register(&core.Check{
		ID: "C14", Level: "model_checking", Run: c14Run, Replay: c14Replay,
		Added:       "wide include trees (21/81/141 files); extreme class on the real binary under 4 GiB / 20 s (INT32 flag values, 30 000-segment account, include doubling, /dev/zero); schedule class (valuation + --remap, transcode, loader error, deep diamond); free-running stress class (200-day growing journal, 8 files of 300 accruals; 9 commands)",
		QuickBudget: 100 * time.Second, ThoroughBudget: 14 * time.Minute,
		Rule: "10 command forms x {(i) every blank-joined sequence of <= d tokens over the 29-token alphabet of C07, 16 semantic error journals (invalid account type, bad date, zero price, inverted and one-day accrual window, bad commodity, huge number, empty/comment-only/NUL files, include of a directory/empty path/missing file), also as infer training file; " +
			"(ii) all 512 include graphs on three files (self-loops, mutual includes) x syntax error in no/each file x {check, print, balance, infer}; (iii) ~130 flag vectors (absent -v, unknown commodity, inverted/out-of-range/invalid windows, --last -1, --digits -1/100, malformed -m, bad regexes, missing/extra arguments, broken universe file)}; " +
			"oracle: exit 0, or exit != 0 with a diagnostic; no panic, deadlock, or step-horizon overrun (non-termination); errors in loaded files fail the command; failing report commands leave stdout empty; non-trivial = everything except the shortest token strings",
		Assumptions: []string{"non-termination is recognised by a horizon of 4000 scheduler steps (terminating cases need < 1000)", "memory exhaustion is approximated by the goroutine census and the horizon", "default goroutine schedule (C19 explores schedules)"},
	})
}
