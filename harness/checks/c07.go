package checks

import (
	"encoding/json"
	"errors"
	"fmt"
	"reflect"
	"strings"
	"time"

	"kmc/core"
	"kmc/jr"

	"github.com/sboehler/knut/lib/syntax/directives"
	"github.com/sboehler/knut/lib/syntax/parser"
)

// C07 — the parser is total and its tree is a lossless cover of the text.

var rangeType = reflect.TypeOf(directives.Range{})

// parseText runs the real parser; panics are converted into a violation.
func parseText(text string) (f directives.File, err error, panicked string) {
	defer func() {
		if r := recover(); r != nil {
			panicked = fmt.Sprint(r)
		}
	}()
	p := parser.New(text, "")
	if err = p.Advance(); err != nil {
		return
	}
	f, err = p.ParseFile()
	return
}

// walkRanges calls visit(parent, child) for every Range nested in v.
func walkRanges(v reflect.Value, parent *directives.Range, visit func(parent *directives.Range, r directives.Range, name string) string, name string) string {
	switch v.Kind() {
	case reflect.Interface, reflect.Pointer:
		if v.IsNil() {
			return ""
		}
		return walkRanges(v.Elem(), parent, visit, name)
	case reflect.Slice:
		for i := 0; i < v.Len(); i++ {
			if msg := walkRanges(v.Index(i), parent, visit, fmt.Sprintf("%s[%d]", name, i)); msg != "" {
				return msg
			}
		}
	case reflect.Struct:
		if v.Type() == rangeType {
			return visit(parent, v.Interface().(directives.Range), name)
		}
		own := parent
		if f := v.FieldByName("Range"); f.IsValid() && f.Type() == rangeType {
			r := f.Interface().(directives.Range)
			if r.Text == "" && r.Start == 0 && r.End == 0 {
				return "" // absent optional element
			}
			if msg := visit(parent, r, name); msg != "" {
				return msg
			}
			own = &r
		}
		for i := 0; i < v.NumField(); i++ {
			ft := v.Type().Field(i)
			if ft.Name == "Range" && ft.Type == rangeType {
				continue
			}
			if msg := walkRanges(v.Field(i), own, visit, name+"."+ft.Name); msg != "" {
				return msg
			}
		}
	}
	return ""
}

func gapOK(gap string) bool {
	for _, line := range strings.Split(gap, "\n") {
		t := strings.Trim(line, " \t\r")
		if t == "" || strings.HasPrefix(t, "*") || strings.HasPrefix(t, "#") || strings.HasPrefix(t, "//") {
			continue
		}
		return false
	}
	return true
}

// c07Check returns (key, detail) for one input.
func c07Check(text string) (string, string) {
	f, err, panicked := parseText(text)
	if panicked != "" {
		return "C07:panic", "parser panicked: " + panicked
	}
	if err != nil {
		var de directives.Error
		if !errors.As(err, &de) {
			return "C07:untyped-error", fmt.Sprintf("error of type %T: %v", err, err)
		}
		first := true
		for e := error(de); e != nil; {
			d, ok := e.(directives.Error)
			if !ok {
				break
			}
			// the reported error must point into the input; wrapped causes need only be
			// self-consistent (renderable)
			limit := len(d.Text)
			if first {
				limit = len(text)
				if d.Text != text {
					return "C07:error-position-outside-input", "error range refers to a different text"
				}
			}
			if d.Start < 0 || d.End < d.Start || d.End > limit {
				return "C07:error-position-outside-input", fmt.Sprintf("error range [%d,%d) outside input of length %d: %q", d.Start, d.End, limit, d.Message)
			}
			// the rendered position is the line/column of the end of the range in the
			// error's own text (computed independently here)
			if got, want := d.Location(), refLocation(d.Text, d.End); got != want {
				return "C07:error-location-wrong", fmt.Sprintf("Location() = %s, the range [%d,%d) ends at %s: %q", got, d.Start, d.End, want, d.Message)
			}
			first = false
			e = d.Wrapped
		}
		msg, p2 := renderErr(err, de)
		if p2 != "" {
			return "C07:error-not-renderable", p2
		}
		if msg == "" {
			return "C07:error-not-renderable", "empty error message"
		}
		return "", ""
	}
	// success: structural invariants
	if f.Start != 0 || f.End != len(text) || f.Text != text {
		return "C07:file-range", fmt.Sprintf("file range [%d,%d) text-len %d, input length %d", f.Start, f.End, len(f.Text), len(text))
	}
	pos := 0
	for i, d := range f.Directives {
		if d.Start < pos || d.End < d.Start || d.End > len(text) {
			return "C07:directives-not-increasing", fmt.Sprintf("directive %d range [%d,%d) after position %d", i, d.Start, d.End, pos)
		}
		if d.End == d.Start {
			return "C07:empty-directive", fmt.Sprintf("directive %d is empty", i)
		}
		if !gapOK(text[pos:d.Start]) {
			return "C07:gap-not-blank-or-comment", fmt.Sprintf("text between directives is not whitespace/comment: %q", text[pos:d.Start])
		}
		pos = d.End
		fr := f.Range
		msg := walkRanges(reflect.ValueOf(d), &fr, func(parent *directives.Range, r directives.Range, name string) string {
			if r.Text != text {
				return name + ": range refers to a different text"
			}
			if r.Start < 0 || r.End < r.Start || r.End > len(text) {
				return fmt.Sprintf("%s: range [%d,%d) outside the text (length %d)", name, r.Start, r.End, len(text))
			}
			if parent != nil && (r.Start < parent.Start || r.End > parent.End) {
				return fmt.Sprintf("%s: range [%d,%d) not inside its parent [%d,%d)", name, r.Start, r.End, parent.Start, parent.End)
			}
			if r.Extract() != text[r.Start:r.End] {
				return name + ": Extract differs from slice"
			}
			return ""
		}, fmt.Sprintf("directive[%d]", i))
		if msg != "" {
			return "C07:range-invariant", msg
		}
	}
	if !gapOK(text[pos:]) {
		return "C07:gap-not-blank-or-comment", fmt.Sprintf("text after the last directive is not whitespace/comment: %q", text[pos:])
	}
	return "", ""
}

func refLocation(text string, end int) directives.Location {
	line, col := 1, 1
	for pos, ch := range text {
		if pos >= end {
			break
		}
		if ch == '\n' {
			line, col = line+1, 1
		} else {
			col++
		}
	}
	return directives.Location{Line: line, Col: col}
}

func renderErr(err error, de directives.Error) (msg string, panicked string) {
	defer func() {
		if r := recover(); r != nil {
			panicked = fmt.Sprint("rendering the error panicked: ", r)
		}
	}()
	msg = err.Error()
	_ = de.Location().String()
	_ = de.Context(1)
	return
}

var c07Bytes = []string{"1", "-", `"`, ":", " ", "\n", "\t", "\r", "@", "#", "/", "*", ".", "$", "(", ")", ",", "a", "A", "i", "é", "�", "\xff", "\xc3"}

func c07Tokens() []string {
	long := strings.Repeat("7", 100000)
	longL := strings.Repeat("x", 100000)
	return []string{"2020-01-30", "2020-13-45", "open", "close", "balance", "price", "include", "@performance(USD)",
		"@accrue monthly 2020-01-01 2020-03-31 Assets:X", "@accrue", "Assets:Bank", "Expenses:Füd", "$macro", "100", "-1.5", "CHF",
		`"desc"`, "\"multi\nline\"", `"unterminated`, "\n", "\r\n", "\t", "# c", "// c", "* h", "@", ".", "\x00", "\xff\xfe", long, longL}
}

func c07Corpus() []string {
	ds := []jr.Dir{
		jr.O("2020-01-30", "Assets:Bank"),
		jr.C("2020-01-30", "Assets:Bänk"),
		jr.P("2020-01-30", "USD", "0.9", "CHF"),
		jr.A("2020-01-30", jr.Bal{Acc: "Assets:Bank", Qty: "-1.5", Com: "CHF"}),
		jr.A("2020-01-30", jr.Bal{Acc: "Assets:Bank", Qty: "1", Com: "CHF"}, jr.Bal{Acc: "Assets:Bank", Qty: "2", Com: "USD"}),
		jr.T("2020-01-30", "desc", jr.B("Assets:Bank", "Expenses:Food", "10", "CHF"), jr.B("$m", "Expenses:Food", "1", "CHF")),
		{Kind: jr.Trx, Date: "2020-01-30", Desc: "a", Books: []jr.Booking{jr.B("Assets:Bank", "Expenses:Food", "10", "CHF")}, HasPerf: true, Perf: []string{"USD", "CHF"},
			Accrue: &jr.Accrual{Interval: "monthly", Start: "2020-01-01", End: "2020-03-31", Acc: "Assets:X"}},
		{Kind: jr.Include, Path: "sub/b.knut"},
	}
	var files []string
	all := "# heading\n\n"
	for _, d := range ds {
		files = append(files, d.Render())
		all += d.Render() + "\n// comment\n"
	}
	files = append(files, all, strings.ReplaceAll(all, "\n", "\r\n"))
	// annotations are accepted (and ignored) in front of every directive kind
	for _, d := range ds[:5] {
		files = append(files, "@performance(USD)\n"+d.Render(), "# c\n@accrue monthly 2020-01-01 2020-03-31 Assets:X\n@performance(CHF)\n"+d.Render()+"\n// end\n")
	}
	files = append(files, "@performance(USD)\ninclude \"sub/b.knut\"\n", "2020-01-30 open Assets:A\n@accrue monthly 2020-01-01 2020-03-31 Assets:X\n@performance(CHF)\ninclude \"x.knut\"\n2020-01-30 close Assets:A\n")
	return files
}

type c07Case struct {
	Text string
	Hex  string
}

func c07Run(e *core.Env) {
	try := func(text string, kind string) {
		key, detail := c07Check(text)
		e.Count("evaluations")
		if key != "" {
			shown := text
			if len(shown) > 200 {
				shown = shown[:200] + "..."
			}
			e.Violation(key+":"+kind, fmt.Sprintf("%s\ninput (%d bytes): %q", detail, len(text), shown), c07Case{Text: text}, func() bool {
				k, _ := c07Check(text)
				return k == key
			})
		}
	}
	// (a) byte-class strings
	n := core.Pick(e, 5, 6)
	var rec func(prefix string, depth int)
	rec = func(prefix string, depth int) {
		if depth >= 2 && e.Expired() {
			return
		}
		if e.Shard == 0 {
			e.Count("states")
			e.Count("transitions")
		}
		if e.Take() {
			try(prefix, "bytes")
			if depth >= 3 {
				e.Count("distinct_nontrivial")
			}
			if e.CaseNo()%1000003 == 0 {
				e.Sample(fmt.Sprintf("%q", prefix))
			}
		}
		if depth == n {
			return
		}
		for _, s := range c07Bytes {
			rec(prefix+s, depth+1)
		}
	}
	rec("", 0)
	e.SetBound("byte_string_length", n)
	// (b) token sequences, concatenated directly and joined by blanks
	toks := c07Tokens()
	m := core.Pick(e, 4, 5)
	for _, sep := range []string{"", " "} {
		var seq []string
		var rt func(depth int)
		rt = func(depth int) {
			if depth >= 2 && e.Expired() {
				return
			}
			if e.Shard == 0 {
				e.Count("states")
				e.Count("transitions")
			}
			if e.Take() {
				try(strings.Join(seq, sep), "tokens")
				e.Count("distinct_nontrivial")
				if e.CaseNo()%100003 == 0 {
					s := strings.Join(seq, sep)
					if len(s) > 120 {
						s = s[:120] + "..."
					}
					e.Sample(fmt.Sprintf("%q", s))
				}
			}
			if depth == m {
				return
			}
			for ti, t := range toks {
				if len(t) > 1000 && depth != 0 && depth != m-1 {
					continue // pumped tokens only first or last
				}
				_ = ti
				seq = append(seq, t)
				rt(depth + 1)
				seq = seq[:len(seq)-1]
			}
		}
		rt(0)
	}
	e.SetBound("token_sequence_length", m)
	c07LongFiles(e, try)
	// (e) the parser as the loader drives it: files that include files that include files
	// (w = 3, 10, 40 first-level includes); parsing must come to an end for every file
	if e.Take() {
		drv := e.Driver()
		for _, w := range []int{3, 10, 40} {
			files := map[string]string{}
			var rb strings.Builder
			for i := 0; i < w; i++ {
				fmt.Fprintf(&rb, "include \"m%02d.knut\"\n", i)
				files[fmt.Sprintf("m%02d.knut", i)] = fmt.Sprintf("# mid\n2020-01-02 price USD 0.9%d CHF\ninclude \"l%02d.knut\"\n", i%10, i)
				files[fmt.Sprintf("l%02d.knut", i)] = "2020-01-03 price EUR 1.1 CHF\n"
			}
			files["root.knut"] = rb.String()
			drv.Files(files)
			o := drv.Run(nil, "check", "root.knut")
			e.Count("evaluations")
			if ab := o.Abnormal(); ab != "" {
				e.Violation("C07:parse-does-not-return:include-tree", fmt.Sprintf("a valid tree of %d files: %s", 2*w+1, ab), c07Case{Text: files["root.knut"]}, nil)
			} else if o.Exit != 0 {
				e.Violation("C07:valid-include-tree-rejected", o.Stderr, c07Case{Text: files["root.knut"]}, nil)
			}
		}
	}
	// (c) prefixes and single-token substitutions of a corpus of valid files
	for _, file := range c07Corpus() {
		if _, err, _ := parseText(file); err != nil {
			e.EngineError("corpus file does not parse: %v\n%s", err, file)
		}
		for i := 0; i <= len(file); i++ {
			if e.Take() {
				try(file[:i], "prefix")
				e.Count("distinct_nontrivial")
			}
		}
		fields := strings.Fields(file)
		for fi, fld := range fields {
			idx := strings.Index(file, fld)
			_ = fi
			for _, t := range toks {
				if len(t) > 1000 {
					continue
				}
				if e.Take() {
					try(file[:idx]+t+file[idx+len(fld):], "substitution")
					e.Count("distinct_nontrivial")
				}
			}
		}
	}
}

// c07LongFiles: (d) state that a parser accumulates over a whole file — every file of n
// one-booking transactions (n <= N) followed by one transaction of k bookings (k <= 12),
// and single transactions of up to 1100 bookings.
func c07LongFiles(e *core.Env, try func(text, kind string)) {
	const one = "2020-01-30 \"t\"\nA:B C:D 1 X\n\n"
	maxN := core.Pick(e, 520, 1100)
	for k := 1; k <= 12; k++ {
		last := "2020-01-31 \"k\"\n" + strings.Repeat("A:B C:D 1 X\n", k) + "\n"
		for n := 0; n <= maxN; n++ {
			if e.Expired() {
				return
			}
			if e.Take() {
				try(strings.Repeat(one, n)+last, "long-file")
				e.Count("distinct_nontrivial")
			}
		}
	}
	for _, k := range []int{13, 64, 255, 256, 257, 258, 511, 512, 513, 1024, 1100} {
		if e.Take() {
			try("2020-01-31 \"k\"\n"+strings.Repeat("A:B C:D 1 X\n", k)+"\n", "long-transaction")
		}
	}
	e.SetBound("long_file_transactions", maxN)
}

func c07Replay(e *core.Env, data json.RawMessage) (bool, string) {
	var cs c07Case
	if err := json.Unmarshal(data, &cs); err != nil {
		return false, err.Error()
	}
	key, detail := c07Check(cs.Text)
	return key != "", key + " " + detail
}

func init() {
	core.Register(&core.Check{
		ID: "C07", Level: "model_checking", Run: c07Run, Replay: c07Replay,
		QuickBudget: 90 * time.Second, ThoroughBudget: 14 * time.Minute,
		Rule: "(a) every string of <= n symbols over 24 byte classes (incl. invalid UTF-8, CR, multi-byte); (b) every sequence of <= m tokens over 29 tokens (dates, keywords, accounts, macros, decimals, quoted/unterminated strings, annotations, comment starters, CRLF, 100000-character tokens), concatenated directly and blank-separated; " +
			"(c) every byte prefix and every single-field substitution of 10 valid corpus files; (d) every file of n <= 520 | 1100 one-booking transactions followed by a transaction of k <= 12 bookings, single transactions of up to 1100 bookings; the real parser must not panic, errors must lie inside the input and render, trees must satisfy the range/cover invariants (reflective walk); non-trivial = length >= 3 or token/corpus cases",
		Assumptions: []string{"strings longer than the bounds are represented by the corpus mutations and pumped tokens only"},
	})
}
