package checks

import (
	"encoding/json"
	"fmt"
	"math/big"
	"strings"
	"time"

	"kmc/core"
	"kmc/jr"
	"kmc/ref"
)

// C03 — valued balances are mark-to-market at the latest known price.

func c03One(drv *core.Driver, body []jr.Dir, cfg ref.BalCfg) (string, string, *core.Outcome, int) {
	all := append(opensPrefix(), body...)
	l := ref.NewLedger(all)
	text := jr.RenderAll(all)
	drv.Files(map[string]string{"j.knut": text})
	args := append(append([]string{"balance", "--color=false", "--digits", "8"}, cfg.Args()...), "j.knut")
	out := drv.Run(nil, args...)
	ctx := func() string {
		return fmt.Sprintf("\ncommand: knut %s\njournal body:\n%s\nreport:\n%s", strings.Join(args, " "), jr.RenderAll(body), out.Stdout)
	}
	if ab := out.Abnormal(); ab != "" {
		return "C03:abnormal", ab + ctx(), out, 0
	}
	V := cfg.Valuation
	missing, what := l.MissingPrice(V)
	if missing {
		if out.Exit == 0 {
			return "C03:missing-price-not-reported", "no price for " + what + " but the command prints numbers" + ctx(), out, 0
		}
		if out.Stdout != "" || strings.TrimSpace(out.Stderr) == "" {
			return "C03:unclean-failure", "stdout not empty or no diagnostic" + ctx(), out, 0
		}
		return "", "failed", out, 0
	}
	if out.Exit != 0 {
		return "C03:unexpected-failure", out.Stderr + ctx(), out, 0
	}
	tbl, err := ref.ReadBalanceText(out.Stdout)
	if err != nil {
		return "C03:malformed-table", err.Error() + ctx(), out, 0
	}
	w := l.WindowOf(cfg)
	if len(tbl.Dates) != len(w.Periods) {
		return "C03:columns", fmt.Sprintf("%d columns, want %d", len(tbl.Dates), len(w.Periods)) + ctx(), out, 0
	}
	got := map[string][]*big.Rat{}
	for _, r := range tbl.Rows {
		if r.Section != "AL" && r.Section != "EIE" {
			continue
		}
		vs := make([]*big.Rat, len(r.Cells))
		for i, c := range r.Cells {
			v, err := ref.ParseNum(c)
			if err != nil {
				return "C03:malformed-cell", err.Error() + ctx(), out, 0
			}
			vs[i] = v
		}
		got[r.Path] = vs
	}
	cell := func(acc string, k int) *big.Rat {
		acc = ref.RemapAccount(acc, cfg.Remap) // --remap only changes the section a row is shown in
		if vs := got[acc]; vs != nil && k < len(vs) {
			return vs[k]
		}
		return new(big.Rat)
	}
	accounts := map[string]bool{}
	for _, p := range l.Postings {
		if w.Contains(p.Date) {
			accounts[p.Acc] = true
		}
	}
	checked := 0
	compareEIE := cfg.NoClose || cfg.Interval == ref.Once
	for k, per := range w.Periods {
		d := per.E
		gains := map[string]ref.ValuedCell{} // mirror account -> accumulated gain
		for acc := range accounts {
			if !jr.IsAL(acc) {
				continue
			}
			mtm := l.MarkToMarket(w, acc, V, d)
			if mtm.Ambiguous {
				continue
			}
			checked++
			if g := cell(acc, k); !ref.Within(g, mtm.Value, mtm.Tol) {
				return "C03:value:AL:" + cfgFeatures(cfg), fmt.Sprintf("%s at %s: report shows %s, mark-to-market is %s (tolerance %s)", acc, ref.ISO(d), ref.Str(g), ref.Str(mtm.Value), ref.Str(mtm.Tol)) + ctx(), out, checked
			}
			bv := l.BookedValue(w, acc, V, d)
			m := ref.ValuationAccount(acc)
			cur, ok := gains[m]
			if !ok {
				cur = ref.ValuedCell{Value: new(big.Rat), Tol: new(big.Rat)}
			}
			cur.Value = ref.Add(cur.Value, ref.Sub(mtm.Value, bv.Value))
			cur.Tol = ref.Add(cur.Tol, ref.Add(mtm.Tol, bv.Tol))
			cur.Ambiguous = cur.Ambiguous || bv.Ambiguous
			gains[m] = cur
		}
		if !compareEIE {
			continue
		}
		eie := map[string]bool{}
		for acc := range accounts {
			if !jr.IsAL(acc) {
				eie[acc] = true
			}
		}
		for m := range gains {
			eie[m] = true
		}
		for acc := range eie {
			bv := l.BookedValue(w, acc, V, d)
			want := ref.Neg(bv.Value)
			tol := bv.Tol
			kind := "booking"
			if g, ok := gains[acc]; ok {
				if g.Ambiguous {
					continue
				}
				want = ref.Add(want, g.Value)
				tol = ref.Add(tol, g.Tol)
				kind = "gain"
			}
			if bv.Ambiguous {
				continue
			}
			checked++
			if g := cell(acc, k); !ref.Within(g, want, tol) {
				return "C03:value:EIE-" + kind + ":" + cfgFeatures(cfg), fmt.Sprintf("%s at %s: report shows %s, want %s (tolerance %s)", acc, ref.ISO(d), ref.Str(g), ref.Str(want), ref.Str(tol)) + ctx(), out, checked
			}
		}
	}
	return "", "", out, checked
}

func c03Alphabet(dates []string) []jr.Dir {
	var a []jr.Dir
	for _, d := range dates {
		a = append(a, valuedTrxTemplates(d)...)
		a = append(a, priceTemplates(d)...)
	}
	return a
}

func c03Cfgs(full bool) []ref.BalCfg {
	var cs []ref.BalCfg
	tos := []string{"", "2020-02-29"}
	ivs := []ref.Interval{ref.Once, ref.Daily, ref.Monthly}
	if full {
		tos = []string{"", "2020-02-29", "2020-03-02"}
		ivs = []ref.Interval{ref.Once, ref.Daily, ref.Weekly, ref.Monthly, ref.Quarterly}
	}
	for _, v := range []string{"CHF", "USD"} {
		for _, t := range tos {
			for _, iv := range ivs {
				for _, nc := range []bool{false, true} {
					cs = append(cs, ref.BalCfg{Valuation: v, To: t, Interval: iv, NoClose: nc})
				}
			}
		}
		// valuation combined with --remap (both look up counterpart accounts in the registry)
		cs = append(cs, ref.BalCfg{Valuation: v, Interval: ref.Daily, NoClose: true, Remap: []string{"Checking|Cash"}},
			ref.BalCfg{Valuation: v, Remap: []string{"Bank|Card"}})
	}
	return cs
}

func c03Run(e *core.Env) {
	e.ReserveTail()
	drv := e.Driver()
	d3 := []string{"2020-01-30", "2020-02-29", "2020-03-31"}
	type plan struct {
		alpha []jr.Dir
		n     int
		cfgs  []ref.BalCfg
		tag   string
	}
	plans := []plan{{c03Alphabet(d3), 2, c03Cfgs(false), "d3"}, {c03Alphabet(d3[:2]), 3, c03Cfgs(false)[:6], "d2"}}
	if e.Thorough() {
		plans = []plan{{c03Alphabet(d3), 3, c03Cfgs(true), "d3"}}
	}
	for _, pl := range plans {
		e.Note("%s: journal alphabet %d symbols, depth <= %d, %d flag sets per journal", pl.tag, len(pl.alpha), pl.n, len(pl.cfgs))
		forEachSeq(e, pl.alpha, pl.n, func(seq []jr.Dir) {
			if ref.NewLedger(seq).SameDayPriceConflict() {
				return
			}
			for _, cfg := range pl.cfgs {
				if !e.Take() {
					continue
				}
				n := e.CaseNo()
				key, detail, out, checked := c03One(drv, seq, cfg)
				e.Count("evaluations")
				e.Add("cells_compared", checked)
				if detail == "failed" {
					e.Count("runs_failing_on_missing_price")
				}
				if checked > 0 {
					e.Count("distinct_nontrivial")
				}
				if n%50021 == 0 {
					e.Sample(map[string]any{"journal": jr.ShortAll(seq), "flags": cfg.Args()})
				}
				e.Distinct(out.Stdout)
				if key != "" {
					cs := balCase{cloneDirs(seq), cfg}
					e.Violation(key, detail, cs, func() bool {
						k, _, _, _ := c03One(drv, cs.Body, cs.Cfg)
						return k == key
					})
				} else if n%10007 == 0 {
					b := drv.RunBinary(append(append([]string{"balance", "--color=false", "--digits", "8"}, cfg.Args()...), "j.knut")...)
					if b.Exit != out.Exit || !sameTableUpToRowOrder(b.Stdout, out.Stdout) {
						e.EngineError("binary mismatch for %v:\n%s\nvs\n%s", cfg.Args(), b.Stdout, out.Stdout)
					} else {
						e.Count("traces_validated_against_impl")
					}
				}
			}
		})
		e.SetBound("journal_depth_"+pl.tag, pl.n)
	}
	e.BeginTail()
	if e.Take() {
		// mapping asset accounts onto shorter names (-m level:suffix,^Assets) changes the asset
		// rows only: the revaluation gains stay on the income accounts that mirror the
		// original asset accounts. Twenty days of price changes on two foreign positions,
		// in process and on the free-running binary.
		body := []jr.Dir{jr.P("2020-01-01", "USD", "0.9", "CHF"), jr.P("2020-01-01", "AAPL", "100", "USD"),
			jr.T("2020-01-01", "usd", jr.B(accOpening, accChecking, "100", "USD")), jr.T("2020-01-01", "aapl", jr.B(accOpening, accCash, "2", "AAPL")),
			jr.T("2020-01-01", "usd savings", jr.B(accOpening, accSavings, "50", "USD"))}
		for i := 1; i <= 20; i++ {
			d := fmt.Sprintf("2020-01-%02d", 1+i)
			body = append(body, jr.P(d, "USD", fmt.Sprintf("0.9%02d", i), "CHF"), jr.P(d, "AAPL", fmt.Sprint(100+i), "USD"))
		}
		drv.Files(map[string]string{"j.knut": jr.RenderAll(append(opensPrefix(), body...))})
		rest := func(s string) string {
			if i := strings.Index(s, "Total (A+L)"); i >= 0 {
				return s[i:]
			}
			return "no total row:\n" + s
		}
		for _, m := range []string{"1:1,^Assets", "2:1,^Assets", "1:2,^Assets"} {
			for _, bin := range []bool{false, true} {
				run := func(args ...string) *core.Outcome {
					if bin {
						return drv.RunBinaryFree(time.Minute, args...)
					}
					return drv.Run(nil, args...)
				}
				plain := run("balance", "--csv", "-v", "CHF", "--days", "j.knut")
				mapped := run("balance", "--csv", "-v", "CHF", "--days", "-m", m, "j.knut")
				e.Count("evaluations")
				if plain.Exit != 0 || mapped.Exit != 0 || rest(plain.Stdout) != rest(mapped.Stdout) {
					e.Violation("C03:mapping-assets-changes-income-rows", fmt.Sprintf("binary=%v: knut balance --csv -v CHF --days -m %s j.knut\nrows below the assets section:\n%s\nwithout -m:\n%s%s%s", bin, m, clip(rest(mapped.Stdout), 1500), clip(rest(plain.Stdout), 1500), plain.Stderr, mapped.Stderr), balCase{Body: body}, nil)
					break
				}
			}
		}
	}
	// position life histories (closed and reopened positions, several positions)
	chainN := core.Pick(e, 4, 6)
	var chainCfgs []ref.BalCfg
	for _, v := range []string{"CHF", "USD"} {
		for _, iv := range []ref.Interval{ref.Daily, ref.Once} {
			for _, nc := range []bool{false, true} {
				chainCfgs = append(chainCfgs, ref.BalCfg{Valuation: v, Interval: iv, NoClose: nc})
			}
		}
		chainCfgs = append(chainCfgs, ref.BalCfg{Valuation: v, Interval: ref.Daily, NoClose: true, Remap: []string{"Checking|Cash"}})
	}
	e.Note("position chains: 7 step kinds, <= %d steps on consecutive days, %d flag sets", chainN, len(chainCfgs))
	positionChains(e, chainN, func(seq []jr.Dir) {
		for _, cfg := range chainCfgs {
			if !e.Take() {
				continue
			}
			key, detail, out, checked := c03One(drv, seq, cfg)
			e.Count("evaluations")
			e.Add("cells_compared", checked)
			if checked > 0 {
				e.Count("distinct_nontrivial")
			}
			e.Distinct(out.Stdout)
			if key != "" {
				cs := balCase{cloneDirs(seq), cfg}
				e.Violation(key, detail, cs, func() bool {
					k, _, _, _ := c03One(drv, cs.Body, cs.Cfg)
					return k == key
				})
			}
		}
	})
	e.SetBound("position_chain_steps", chainN)
	if e.Take() {
		// prices in the root file, positions and an assertion in two included files: the
		// valued report under every loader schedule equals the single-file one
		root, a, b := multiFileJournal()
		body := append(append(append([]jr.Dir(nil), root[len(opensPrefix()):]...), a...), b...)
		cfg := ref.BalCfg{Valuation: "CHF", Interval: ref.Daily, NoClose: true}
		if key, detail, _, _ := c03One(drv, body, cfg); key != "" {
			e.Violation(key, detail, balCase{body, cfg}, nil)
		} else {
			multiFileSchedules(e, drv, "C03", "balance-v-CHF-days", root, a, b, append(append([]string{"balance", "--color=false", "--digits", "8"}, cfg.Args()...), "root.knut"))
		}
	}
}

func c03Replay(e *core.Env, data json.RawMessage) (bool, string) {
	if h, v, d := replayMultiFile(e, data); h {
		return v, d
	}
	var cs balCase
	if err := json.Unmarshal(data, &cs); err != nil {
		return false, err.Error()
	}
	key, detail, _, _ := c03One(e.Driver(), cs.Body, cs.Cfg)
	return key != "", key + "\n" + detail
}

func init() {
	core.Register(&core.Check{
		ID: "C03", Level: "model_checking", Run: c03Run, Replay: c03Replay,
		Added:       "position life histories; -v combined with --remap; three-file layout under every loader schedule",
		QuickBudget: 180 * time.Second, ThoroughBudget: 14 * time.Minute,
		Rule: "every sequence of <= N directives over {7 position/flow transactions in USD/AAPL/EUR/CHF, 6 price declarations (two values, inverse, chained, 8 decimals)} x 3 dates (journals with two prices for one pair on one day excluded), x valuation {CHF,USD} x --to x intervals x --close; " +
			"every A/L cell is compared with quantity x latest price, income mirror accounts with the accumulated gain, other E/I/E cells with booking-day values, within one 1e-8 truncation per arithmetic step; missing price => clean failure; non-trivial = at least one cell compared",
		Assumptions: []string{"windows do not cut off earlier bookings (--from is not used): with a later --from the report covers only in-window bookings and 'position' is not defined by the statement",
			"when several indirect price chains give different values the cell is skipped (any chain is acceptable)",
			"income/expense/equity rows are compared for --close=false or a single period (with closing they restart, which C02 covers)"},
	})
}
