package checks

import (
	"encoding/json"
	"fmt"
	"regexp"
	"strings"
	"time"

	"kmc/core"
	"kmc/jr"
	"kmc/ref"
)

// C04 — check accepts exactly the well-formed journals.
//
// Every sequence (= every file order) of <= L lifecycle operations over a small
// alphabet is rendered to a journal and given to the real `check`, `print` and
// `balance` commands in-process; the oracle is ref.Lifecycle.

const (
	d0 = "2019-12-31"
	d1 = "2020-01-30"
	d2 = "2020-01-31"
)

func c04Alphabet(full bool) []jr.Dir {
	var a []jr.Dir
	food := "Expenses:Food"
	if !full {
		acc := "Assets:Bank"
		for _, d := range []string{d1, d2} {
			a = append(a, jr.O(d, acc), jr.C(d, acc))
			for _, q := range []string{"1", "-1"} {
				a = append(a, jr.T(d, "b", jr.B(food, acc, q, "CHF")))
			}
			// the account on the credit side (it is then the first account looked up) and a
			// zero booking (touches the account without creating a balance)
			a = append(a, jr.T(d, "r", jr.B(acc, food, "1", "CHF")), jr.T(d, "z", jr.B(food, acc, "0", "CHF")))
			for _, v := range []string{"0", "1"} {
				a = append(a, jr.A(d, jr.Bal{Acc: acc, Qty: v, Com: "CHF"}))
			}
		}
		// dates far outside the range of nanosecond timestamps (1678..2262) and an expense
		// booking with the (possibly closed) account on the credit side of its first booking
		a = append(a, jr.O("1600-01-01", acc), jr.C("9999-12-31", acc), jr.A("2300-01-01", jr.Bal{Acc: acc, Qty: "0", Com: "CHF"}),
			jr.T(d2, "e2", jr.B("Expenses:Rent", food, "1", "CHF")))
		// a position strictly between -1 and 0 (sign and integer part "0") and its assertions
		a = append(a, jr.T(d1, "h", jr.B(acc, food, "0.5", "CHF")), jr.A(d2, jr.Bal{Acc: acc, Qty: "-0.5", Com: "CHF"}), jr.A(d2, jr.Bal{Acc: acc, Qty: "0.50", Com: "CHF"}))
		// an income/expense account has no tracked position: close must still close it
		r := "Expenses:Rent"
		a = append(a, jr.O(d1, r), jr.C(d1, r), jr.C(d2, r), jr.T(d2, "e", jr.B(food, r, "1", "CHF")))
		// an accrual whose per-period share is zero for all periods but the first: the zero
		// bookings on d2 and on the day after still need the expense account to be open
		a = append(a, jr.Dir{Kind: jr.Trx, Date: d1, Desc: "accr", Books: []jr.Booking{jr.B(acc, r, "0.2", "CHF")},
			Accrue: &jr.Accrual{Interval: "daily", Start: d1, End: "2020-02-01", Acc: food}})
		l := "Liabilities:Card"
		a = append(a, jr.O(d1, l), jr.T(d1, "l", jr.B(food, l, "1", "CHF")), jr.A(d2, jr.Bal{Acc: l, Qty: "1", Com: "CHF"}), jr.C(d2, l))
		return a
	}
	for _, d := range []string{d1, d2} {
		r := "Expenses:Rent"
		a = append(a, jr.O(d, r), jr.C(d, r), jr.T(d, "e", jr.B(food, r, "1", "CHF")), jr.T(d, "e2", jr.B(r, food, "1", "CHF")))
	}
	a = append(a, jr.O("1600-01-01", "Assets:Bank"), jr.C("9999-12-31", "Assets:Bank"), jr.A("2300-01-01", jr.Bal{Acc: "Assets:Bank", Qty: "0", Com: "CHF"}))
	a = append(a, jr.Dir{Kind: jr.Trx, Date: d1, Desc: "accr", Books: []jr.Booking{jr.B("Assets:Bank", "Expenses:Rent", "0.2", "CHF")},
		Accrue: &jr.Accrual{Interval: "daily", Start: d1, End: "2020-02-01", Acc: food}},
		jr.Dir{Kind: jr.Trx, Date: d1, Desc: "accr", Books: []jr.Booking{jr.B("Assets:Bank", "Expenses:Rent", "30", "CHF")},
			Accrue: &jr.Accrual{Interval: "daily", Start: d1, End: "2020-02-01", Acc: "Liabilities:Card"}})
	for _, acc := range []string{"Assets:Bank", "Liabilities:Card"} {
		for _, d := range []string{d1, d2} {
			a = append(a, jr.O(d, acc), jr.C(d, acc))
			for _, com := range []string{"CHF", "USD"} {
				for _, q := range []string{"1", "-1", "0"} {
					a = append(a, jr.T(d, "b", jr.B(food, acc, q, com)))
				}
				a = append(a, jr.T(d, "r", jr.B(acc, food, "1", com)))
				for _, v := range []string{"0", "1", "-1"} {
					a = append(a, jr.A(d, jr.Bal{Acc: acc, Qty: v, Com: com}))
				}
				if com == "CHF" {
					a = append(a, jr.T(d, "h", jr.B(acc, food, "0.5", com)), jr.A(d, jr.Bal{Acc: acc, Qty: "-0.5", Com: com}), jr.A(d, jr.Bal{Acc: acc, Qty: "0.50", Com: com}))
				}
			}
			for _, v := range []string{"0", "1"} {
				for _, w := range []string{"0", "1"} {
					a = append(a, jr.A(d, jr.Bal{Acc: acc, Qty: v, Com: "CHF"}, jr.Bal{Acc: acc, Qty: w, Com: "USD"}))
				}
			}
		}
	}
	return a
}

type c04Case struct {
	Dirs []jr.Dir
}

var (
	reNames = regexp.MustCompile(`(Assets|Liabilities|Expenses|Income|Equity)(:[A-Za-z0-9]+)*`)
	reNums  = regexp.MustCompile(`-?[0-9]+(\.[0-9]+)?`)
)

func scrub(s string) string {
	s = reNames.ReplaceAllString(s, "ACC")
	s = reNums.ReplaceAllString(s, "N")
	return s
}

// zeroAssertOnUnbooked reports whether the journal asserts 0 on a position that no
// booking ever touched (the statement says such an assertion holds).
func zeroAssertOnUnbooked(ds []jr.Dir) bool {
	booked := map[string]bool{}
	for _, d := range ds {
		if d.Kind == jr.Trx {
			for _, b := range d.Books {
				booked[b.Credit+"|"+b.Com] = true
				booked[b.Debit+"|"+b.Com] = true
			}
		}
	}
	for _, d := range ds {
		if d.Kind == jr.Assert {
			for _, b := range d.Bals {
				if ref.IsZero(ref.Q(b.Qty)) && !booked[b.Acc+"|"+b.Com] {
					return true
				}
			}
		}
	}
	return false
}

// c04One runs the three commands on one journal and returns (key, detail).
func c04One(drv *core.Driver, prefix, ds []jr.Dir, conform bool) (string, string, int) {
	all := append(append([]jr.Dir(nil), prefix...), ds...)
	text := jr.RenderAll(all)
	drv.Files(map[string]string{"j.knut": text})
	v := ref.Lifecycle(all)
	validated := 0
	for _, cmd := range [][]string{{"check", "j.knut"}, {"print", "j.knut"}, {"balance", "--color=false", "j.knut"}, {"check", "--write", "j.knut"}} {
		out := drv.Run(nil, cmd...)
		if cmd[1] == "--write" {
			// the same verdict and diagnostic as plain check; reported under its own name
			cmd = []string{"check--write", "j.knut"}
		}
		if ab := out.Abnormal(); ab != "" {
			return "C04:abnormal:" + cmd[0], fmt.Sprintf("%s: %s\njournal:\n%s", cmd[0], ab, text), validated
		}
		accepted := out.Exit == 0
		switch {
		case accepted && !v.Accept:
			return "C04:accepts-invalid:" + cmd[0] + ":" + scrub(v.Reason),
				fmt.Sprintf("`knut %s` exits 0 but the journal is invalid: %s (directive %s)\njournal:\n%s", cmd[0], v.Reason, all[v.Candidates[0]].Short(), text), validated
		case !accepted && v.Accept:
			cls := scrub(strings.SplitN(out.Stderr, "\n", 2)[0])
			if strings.Contains(out.Stderr, "failed assertion") && zeroAssertOnUnbooked(all) {
				cls = "failed-assertion-zero-on-unbooked-position"
			}
			return "C04:rejects-valid:" + cls,
				fmt.Sprintf("`knut %s` exits %d but the journal is well-formed\nstderr: %s\njournal:\n%s", cmd[0], out.Exit, out.Stderr, text), validated
		case !accepted:
			if strings.TrimSpace(out.Stderr) == "" {
				return "C04:no-diagnostic:" + cmd[0], "rejected without a diagnostic on stderr\njournal:\n" + text, validated
			}
			named := false
			for _, ci := range v.Candidates {
				d := all[ci]
				ok := strings.Contains(out.Stderr, d.Date)
				switch d.Kind {
				case jr.Open, jr.Close:
					ok = ok && strings.Contains(out.Stderr, d.Date+" "+d.Kind.String()+" "+d.Acc)
				case jr.Trx:
					if d.Accrue != nil {
						// the diagnostic shows the generated instalment ("<desc> (accrual i/n)", dated at its period end)
						ok = strings.Contains(out.Stderr, " \""+d.Desc+" (accrual ") || strings.Contains(out.Stderr, d.Date+" \""+d.Desc+"\"")
					} else {
						ok = ok && strings.Contains(out.Stderr, d.Date+" \""+d.Desc+"\"")
					}
				case jr.Assert:
					ok = ok && strings.Contains(out.Stderr, d.Date+" balance") && strings.Contains(out.Stderr, d.Bals[0].Acc)
				}
				named = named || ok
			}
			if !named {
				return "C04:wrong-directive-named:" + cmd[0] + ":" + scrub(v.Reason),
					fmt.Sprintf("diagnostic does not name an offending directive (expected one of %v)\nstderr: %s\njournal:\n%s", v.Candidates, out.Stderr, text), validated
			}
			if (cmd[0] == "print" || cmd[0] == "balance" || cmd[0] == "check--write") && out.Stdout != "" {
				return "C04:output-on-reject:" + cmd[0], "stdout not empty on a rejected journal\n" + text, validated
			}
		}
		if conform && cmd[0] == "check" {
			b := drv.RunBinary(cmd...)
			if b.Exit != out.Exit || b.Stdout != out.Stdout || b.Stderr != out.Stderr {
				return "ENGINE:binary-mismatch", fmt.Sprintf("in-process exit=%d stderr=%q vs binary exit=%d stderr=%q\n%s", out.Exit, out.Stderr, b.Exit, b.Stderr, text), validated
			}
			validated++
		}
	}
	return "", "", validated
}

func c04Run(e *core.Env) {
	e.ReserveTail()
	drv := e.Driver()
	prefix := []jr.Dir{jr.O(d0, "Expenses:Food")}
	run := func(alpha []jr.Dir, maxL int, tag string, conformEvery int64) {
		var seq []jr.Dir
		var rec func(depth int)
		rec = func(depth int) {
			if e.Expired() {
				return
			}
			if e.Shard == 0 {
				e.Count("states")
				if depth > 0 {
					e.Count("transitions")
				}
			}
			if e.Take() {
				n := e.CaseNo()
				key, detail, val := c04One(drv, prefix, seq, n%conformEvery == 0)
				e.Count("evaluations")
				e.Add("traces_validated_against_impl", val)
				e.Distinct(fmt.Sprint(ref.Lifecycle(append(append([]jr.Dir(nil), prefix...), seq...)).Accept) + key)
				if len(seq) >= 2 {
					e.Count("distinct_nontrivial")
				}
				if n%9973 == 0 {
					e.Sample(map[string]any{"alphabet": tag, "journal": jr.ShortAll(seq)})
				}
				if key != "" {
					cs := c04Case{Dirs: append([]jr.Dir(nil), seq...)}
					if strings.HasPrefix(key, "ENGINE:") {
						e.EngineError("%s: %s", key, detail)
					} else {
						e.Violation(key, detail, cs, func() bool {
							k, _, _ := c04One(drv, prefix, cs.Dirs, false)
							return k == key
						})
					}
				}
			}
			if depth == maxL {
				return
			}
			for _, s := range alpha {
				seq = append(seq, s)
				rec(depth + 1)
				seq = seq[:len(seq)-1]
			}
		}
		rec(0)
		e.SetBound("depth_"+tag, maxL)
	}
	if e.Thorough() {
		run(c04Alphabet(true), 3, "full", 997)
		run(c04Alphabet(false), 5, "core", 4999)
	} else {
		run(c04Alphabet(true), 2, "full", 23)
		run(c04Alphabet(false), 4, "core", 4001)
	}
	e.BeginTail()
	if e.Take() {
		// the verdict when the directives are spread over three files, under every loader
		// schedule: an accepted journal (the assertions in b.knut depend on a.knut) and the
		// same journal with a wrong assertion
		root, a, b := multiFileJournal()
		if !ref.Lifecycle(append(append(append([]jr.Dir(nil), root...), a...), b...)).Accept {
			e.EngineError("multi-file journal is not accepted by the reference")
		}
		multiFileSchedules(e, drv, "C04", "check-accept", root, a, b, []string{"check", "root.knut"})
		bad := append(cloneDirs(b), jr.A("2020-02-02", jr.Bal{Acc: accChecking, Qty: "151", Com: "USD"}))
		if ref.Lifecycle(append(append(append([]jr.Dir(nil), root...), a...), bad...)).Accept {
			e.EngineError("multi-file journal with a wrong assertion is accepted by the reference")
		}
		multiFileSchedules(e, drv, "C04", "check-reject", root, a, bad, []string{"check", "root.knut"})
	}
}

func c04Replay(e *core.Env, data json.RawMessage) (bool, string) {
	if h, v, d := replayMultiFile(e, data); h {
		return v, d
	}
	var cs c04Case
	if err := json.Unmarshal(data, &cs); err != nil {
		return false, err.Error()
	}
	key, detail, _ := c04One(e.Driver(), []jr.Dir{jr.O(d0, "Expenses:Food")}, cs.Dirs, false)
	return key != "", key + "\n" + detail
}

func init() {
	core.Register(&core.Check{
		ID: "C04", Level: "model_checking", Run: c04Run, Replay: c04Replay,
		Added:       "bookings of 0.5 and assertions -0.5 / 0.50; accruals whose per-period share is zero; accepted and rejected journal spread over three files under every loader schedule",
		QuickBudget: 160 * time.Second, ThoroughBudget: 14 * time.Minute,
		Rule: "every sequence (all file orders) of <= L lifecycle operations (open, close, booking +1/-1/0, one- and two-line assertions) over {asset, liability} x {CHF, USD} x 2 dates; " +
			"each sequence prefix is a state of the operation tree; check, print and balance are run on each; non-trivial = at least two operations",
		Assumptions: []string{"assertions on equity/income/expense accounts are outside the statement and not generated",
			"in-process driver validated against the uninstrumented binary on an evenly spaced subset (traces_validated_against_impl)"},
	})
}
