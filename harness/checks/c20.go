package checks

import (
	"encoding/json"
	"fmt"
	"math"
	"math/big"
	"regexp"
	"strconv"
	"strings"
	"time"

	"kmc/core"
	"kmc/jr"
	"kmc/ref"
)

// C20 — portfolio analytics agree with the valued balance.

type c20Cfg struct {
	V        string
	From, To string
	Interval ref.Interval
	Last     int
	AccRx    string
	ComRx    string
	Universe bool
	Map      string
}

func (c c20Cfg) common() []string {
	a := []string{"-v", c.V}
	if c.From != "" {
		a = append(a, "--from", c.From)
	}
	if c.To != "" {
		a = append(a, "--to", c.To)
	}
	if f := ref.IntervalFlags[c.Interval]; f != "" {
		a = append(a, f)
	}
	if c.Last != 0 {
		a = append(a, "--last", fmt.Sprint(c.Last))
	}
	if c.AccRx != "" {
		a = append(a, "--account", c.AccRx)
	}
	if c.ComRx != "" {
		a = append(a, "--commodity", c.ComRx)
	}
	return a
}

const c20Universe = "Equity:US:Tech: [AAPL]\nCash:Foreign: [USD, EUR]\nCash:Home: [CHF]\n"

var c20Classes = map[string][]string{"AAPL": {"Equity", "US", "Tech", "AAPL"}, "USD": {"Cash", "Foreign", "USD"}, "EUR": {"Cash", "Foreign", "EUR"}, "CHF": {"Cash", "Home", "CHF"}}

func c20Locate(com string, universe bool) []string {
	if universe {
		if p, ok := c20Classes[com]; ok {
			return p
		}
	}
	return []string{"Other", com}
}

type c20Case struct {
	Body []jr.Dir
	Cfg  c20Cfg
	Cmd  string
}

func isPortfolio(acc string, cfg c20Cfg) bool {
	return jr.IsAL(acc) && (cfg.AccRx == "" || regexp.MustCompile(cfg.AccRx).MatchString(acc))
}

// portfolioValues returns value per commodity of the portfolio accounts at the end of day d.
func portfolioValues(l *ref.Ledger, cfg c20Cfg, d time.Time) (map[string]float64, bool) {
	qty := map[string]*big.Rat{}
	for _, p := range l.Postings {
		if p.Date.After(d) || !isPortfolio(p.Acc, cfg) {
			continue
		}
		if cfg.ComRx != "" && !regexp.MustCompile(cfg.ComRx).MatchString(p.Com) {
			continue
		}
		if qty[p.Com] == nil {
			qty[p.Com] = new(big.Rat)
		}
		qty[p.Com].Add(qty[p.Com], p.Qty)
	}
	vals := map[string]float64{}
	amb := false
	for c, q := range qty {
		pr, ok, a := l.PriceOn(d, cfg.V, c)
		if !ok {
			continue
		}
		amb = amb || a
		v, _ := ref.Mul(q, pr).Float64()
		if math.Abs(v) > 1e-7 {
			vals[c] = v
		}
	}
	return vals, amb
}

func c20Weights(drv *core.Driver, body []jr.Dir, cfg c20Cfg) (string, string, *core.Outcome) {
	all := append(opensPrefix(), body...)
	l := ref.NewLedger(all)
	files := map[string]string{"j.knut": jr.RenderAll(all), "u.yaml": c20Universe}
	drv.Files(files)
	args := append([]string{"portfolio", "weights", "--csv", "-a"}, cfg.common()...)
	if cfg.Universe {
		args = append(args, "--universe", "u.yaml")
	}
	if cfg.Map != "" {
		args = append(args, "-m", cfg.Map)
	}
	args = append(args, "j.knut")
	out := drv.Run(nil, args...)
	ctx := func() string {
		return fmt.Sprintf("\ncommand: knut %s\njournal body:\n%s\noutput:\n%s", strings.Join(args, " "), jr.RenderAll(body), out.Stdout)
	}
	if ab := out.Abnormal(); ab != "" {
		return "C20:abnormal:weights", ab + ctx(), out
	}
	if missing, _ := l.MissingPrice(cfg.V); missing {
		if out.Exit == 0 {
			return "C20:missing-price-not-reported", ctx(), out
		}
		return "", "failed", out
	}
	if out.Exit != 0 {
		return "C20:unexpected-failure:weights", out.Stderr + ctx(), out
	}
	rows, err := ref.ParseCSVTable(out.Stdout)
	if err != nil || len(rows) == 0 {
		return "C20:malformed-csv", fmt.Sprint(err) + ctx(), out
	}
	w := l.WindowOf(ref.BalCfg{From: cfg.From, To: cfg.To, Interval: cfg.Interval, Last: cfg.Last})
	// expected columns and weights
	type col struct {
		date string
		w    map[string]float64 // by joined path (after mapping)
	}
	var cols []col
	for _, p := range w.Periods {
		vals, amb := portfolioValues(l, cfg, p.E)
		if amb {
			return "", "ambiguous", out
		}
		if len(vals) == 0 {
			continue
		}
		total := 0.0
		for _, v := range vals {
			total += v
		}
		if math.Abs(total) < 1e-6 {
			return "", "zero-total", out
		}
		c := col{date: ref.ISO(p.E), w: map[string]float64{}}
		for com, v := range vals {
			path := c20Locate(com, cfg.Universe)
			if cfg.Map != "" {
				parts := strings.SplitN(cfg.Map, ",", 2)
				ls := strings.SplitN(parts[0], ":", 2)
				lvl, _ := strconv.Atoi(ls[0])
				suffix := 0
				if len(ls) == 2 {
					suffix, _ = strconv.Atoi(ls[1])
				}
				if len(parts) == 1 || regexp.MustCompile(parts[1]).MatchString(strings.Join(path, ":")) {
					// first <level> segments followed by the last <suffix> segments
					if lvl < len(path)-suffix {
						np := append([]string(nil), path[:lvl]...)
						path = append(np, path[len(path)-suffix:]...)
					}
				}
			}
			for i := 1; i <= len(path); i++ {
				c.w[strings.Join(path[:i], ":")] += v / total
			}
		}
		cols = append(cols, c)
	}
	hdr := rows[0]
	if len(hdr) != len(cols)+1 {
		var want []string
		for _, c := range cols {
			want = append(want, c.date)
		}
		return "C20:weights-columns", fmt.Sprintf("columns %v, want %v", hdr[1:], want) + ctx(), out
	}
	for i, c := range cols {
		if hdr[i+1] != c.date {
			return "C20:weights-columns", fmt.Sprintf("column %d is %s, want %s", i, hdr[i+1], c.date) + ctx(), out
		}
	}
	// reconstruct paths: with -a rows are in alphabetical pre-order; segments are unique
	// in the alphabet, so a row's path is resolved against the expected path set
	known := map[string]string{} // segment -> full path
	for _, c := range cols {
		for p := range c.w {
			segs := strings.Split(p, ":")
			known[segs[len(segs)-1]] = p
		}
	}
	seen := map[string]bool{}
	for _, r := range rows[1:] {
		p, ok := known[r[0]]
		if !ok {
			return "C20:weights-unexpected-row", fmt.Sprintf("row %q is not a commodity or group of the holdings", r[0]) + ctx(), out
		}
		seen[p] = true
		for i, c := range cols {
			got := 0.0
			if r[i+1] != "" {
				got, err = strconv.ParseFloat(r[i+1], 64)
				if err != nil {
					return "C20:malformed-cell", r[i+1] + ctx(), out
				}
			}
			if math.Abs(got-c.w[p]) > 2e-6 {
				kind := "leaf"
				if len(strings.Split(p, ":")) < 2 || (cfg.Universe && len(strings.Split(p, ":")) < 3 && cfg.Map == "") {
					kind = "group"
				}
				feat := ""
				if cfg.Universe {
					feat += ":universe"
				}
				if cfg.Map != "" {
					feat += ":map"
				}
				if cfg.AccRx != "" || cfg.ComRx != "" {
					feat += ":filter"
				}
				return "C20:weight-value:" + kind + feat, fmt.Sprintf("%s on %s: weight %g, want %g", p, c.date, got, c.w[p]) + ctx(), out
			}
		}
	}
	for _, c := range cols {
		for p, v := range c.w {
			if !seen[p] && math.Abs(v) > 1e-6 {
				return "C20:weights-missing-row", fmt.Sprintf("no row for %s", p) + ctx(), out
			}
		}
	}
	return "", "", out
}

var reReturn = regexp.MustCompile(`^(\d{4}-\d{2}-\d{2}) 00:00:00 \+0000 UTC: (-?[0-9.]+|NaN|[+-]Inf)%$`)

func c20Returns(drv *core.Driver, body []jr.Dir, cfg c20Cfg) (string, string, *core.Outcome) {
	all := append(opensPrefix(), body...)
	l := ref.NewLedger(all)
	drv.Files(map[string]string{"j.knut": jr.RenderAll(all)})
	args := append(append([]string{"portfolio", "returns"}, cfg.common()...), "j.knut")
	out := drv.Run(nil, args...)
	ctx := func() string {
		return fmt.Sprintf("\ncommand: knut %s\njournal body:\n%s\noutput:\n%s", strings.Join(args, " "), jr.RenderAll(body), out.Stdout)
	}
	if ab := out.Abnormal(); ab != "" {
		return "C20:abnormal:returns", ab + ctx(), out
	}
	if missing, _ := l.MissingPrice(cfg.V); missing {
		if out.Exit == 0 {
			return "C20:missing-price-not-reported", ctx(), out
		}
		return "", "failed", out
	}
	if out.Exit != 0 {
		return "C20:unexpected-failure:returns", out.Stderr + ctx(), out
	}
	w := l.WindowOf(ref.BalCfg{From: cfg.From, To: cfg.To, Interval: cfg.Interval, Last: cfg.Last})
	var lines []string
	for _, ln := range strings.Split(out.Stdout, "\n") {
		if ln != "" {
			lines = append(lines, ln)
		}
	}
	var periods []ref.Period
	for _, p := range w.Periods {
		if !p.E.Before(p.S) {
			periods = append(periods, p)
		}
	}
	if len(lines) != len(periods) {
		var want []string
		for _, p := range periods {
			want = append(want, ref.ISO(p.E))
		}
		return "C20:returns-missing-period", fmt.Sprintf("%d lines for %d periods (period ends %v)", len(lines), len(periods), want) + ctx(), out
	}
	prevEnd := w.Start.AddDate(0, 0, -1)
	if len(periods) > 0 {
		// with --last the first shown period starts later than the window: its return is
		// measured from the day before ITS start, not from the start of the window
		prevEnd = periods[0].S.AddDate(0, 0, -1)
	}
	for i, p := range periods {
		m := reReturn.FindStringSubmatch(lines[i])
		if m == nil {
			return "C20:returns-malformed-line", lines[i] + ctx(), out
		}
		if m[1] != ref.ISO(p.E) {
			return "C20:returns-wrong-date", fmt.Sprintf("line %d is for %s, want %s", i, m[1], ref.ISO(p.E)) + ctx(), out
		}
		got, _ := strconv.ParseFloat(m[2], 64)
		// classify the period
		flows, perfTrx, priceChange := false, false, false
		for _, d := range all {
			if d.Kind != jr.Trx || d.Accrue != nil {
				continue
			}
			dt := ref.ParseISO(d.Date)
			if dt.Before(p.S) || dt.After(p.E) || !dt.After(prevEnd) {
				continue
			}
			for _, b := range d.Books {
				if isPortfolio(b.Credit, cfg) != isPortfolio(b.Debit, cfg) {
					if cfg.ComRx != "" && !regexp.MustCompile(cfg.ComRx).MatchString(b.Com) {
						continue // a commodity outside the filter is not part of the portfolio: neither value nor flow
					}
					if d.HasPerf {
						perfTrx = true
					} else {
						flows = true
					}
				}
			}
		}
		// instalments generated from @accrue annotations are ordinary bookings
		for _, ps := range l.Postings {
			if ps.Gen != "accrual" || ps.Date.Before(p.S) || ps.Date.After(p.E) || !ps.Date.After(prevEnd) {
				continue
			}
			if cfg.ComRx != "" && !regexp.MustCompile(cfg.ComRx).MatchString(ps.Com) {
				continue
			}
			if isPortfolio(ps.Acc, cfg) != isPortfolio(ps.Other, cfg) {
				flows = true
			}
		}
		v0, a0 := portfolioValues(l, cfg, prevEnd)
		v1, a1 := portfolioValues(l, cfg, p.E)
		if a0 || a1 {
			prevEnd = p.E
			continue
		}
		// price change: compare the prices of held commodities at both ends and on every journal day in between
		held := map[string]bool{}
		for c := range v0 {
			held[c] = true
		}
		for c := range v1 {
			held[c] = true
		}
		days := append([]time.Time{prevEnd}, l.JournalDays(p.E)...)
		// ... and of commodities bought and sold again inside the period
		for _, d := range days {
			if d.Before(prevEnd) || d.After(p.E) {
				continue
			}
			vd, _ := portfolioValues(l, cfg, d)
			for c := range vd {
				held[c] = true
			}
		}
		for c := range held {
			var base *big.Rat
			for _, d := range days {
				if d.Before(prevEnd) || d.After(p.E) {
					continue
				}
				pr, ok, _ := l.PriceOn(d, cfg.V, c)
				if !ok {
					continue
				}
				if base == nil {
					base = pr
				} else if base.Cmp(pr) != 0 {
					priceChange = true
				}
			}
		}
		sum := func(m map[string]float64) float64 {
			t := 0.0
			for _, v := range m {
				t += v
			}
			return t
		}
		// a return is a ratio of values: it is undefined (knut prints NaN or +-Inf) when the
		// portfolio is empty or overdrawn at the start of the period or on a day inside it
		undefined := false
		for _, d := range days {
			if d.Before(prevEnd) || d.After(p.E) {
				continue
			}
			vd, _ := portfolioValues(l, cfg, d)
			if sum(vd) <= 1e-9 {
				undefined = true
			}
		}
		if (math.IsNaN(got) || math.IsInf(got, 0)) && !undefined {
			return "C20:returns-not-a-number", fmt.Sprintf("period ending %s: %s%% although the portfolio value is positive throughout", ref.ISO(p.E), m[2]) + ctx(), out
		}
		switch {
		case perfTrx, undefined && (math.IsNaN(got) || math.IsInf(got, 0)):
		case !priceChange:
			// only external flows (or nothing) at unchanged prices: 0 %
			if math.Abs(got) > 0.0500001 {
				return "C20:returns-nonzero-without-price-change", fmt.Sprintf("period ending %s: %s%%, want 0.0%%", ref.ISO(p.E), m[2]) + ctx(), out
			}
		case !flows && math.Abs(sum(v0)) > 1e-6:
			want := (sum(v1)/sum(v0) - 1) * 100
			if math.Abs(got-want) > 0.0500001+1e-9*math.Abs(want) {
				return "C20:returns-value-without-flows", fmt.Sprintf("period ending %s: %s%%, want %.4f%% (value %.6f -> %.6f)", ref.ISO(p.E), m[2], want, sum(v0), sum(v1)) + ctx(), out
			}
		}
		prevEnd = p.E
	}
	return "", "", out
}

func c20Alphabet(dates []string) []jr.Dir {
	var a []jr.Dir
	for i, d := range dates {
		a = append(a,
			jr.T(d, "deposit chf", jr.B(accOpening, accCash, "1000", "CHF")),
			jr.T(d, "deposit usd", jr.B(accOpening, accCash, "100", "USD")),
			jr.T(d, "shares", jr.B(accOpening, accCash, "2", "AAPL")),
			jr.T(d, "withdraw", jr.B(accCash, accFood, "50", "CHF")),
			jr.T(d, "withdraw written the other way round", jr.B(accFood, accCash, "-50", "CHF")),
			jr.T(d, "transfer", jr.B(accChecking, accCash, "200", "CHF")),
			jr.T(d, "salary", jr.B(accSalary, accChecking, "500", "CHF")),
			jr.Dir{Kind: jr.Trx, Date: d, Desc: "dividend", HasPerf: true, Perf: []string{"AAPL"}, Books: []jr.Booking{jr.B(accSalary, accCash, "7", "USD")}},
			jr.Dir{Kind: jr.Trx, Date: d, Desc: "accrued", Books: []jr.Booking{jr.B(accCash, accFood, "30", "CHF")},
				Accrue: &jr.Accrual{Interval: "monthly", Start: "2020-01-01", End: "2020-03-31", Acc: accChecking}},
			jr.P(d, "USD", []string{"0.9", "0.95", "0.92"}[i%3], "CHF"),
			jr.P(d, "AAPL", []string{"100", "110", "90"}[i%3], "USD"),
		)
	}
	return a
}

func c20Cfgs(full bool) []c20Cfg {
	var cs []c20Cfg
	ivs := []ref.Interval{ref.Once, ref.Monthly, ref.Weekly}
	if full {
		ivs = []ref.Interval{ref.Once, ref.Daily, ref.Weekly, ref.Monthly, ref.Quarterly}
	}
	for _, v := range []string{"CHF", "USD"} {
		for _, iv := range ivs {
			cs = append(cs, c20Cfg{V: v, Interval: iv})
			cs = append(cs, c20Cfg{V: v, Interval: iv, AccRx: "Portfolio"})
			cs = append(cs, c20Cfg{V: v, Interval: iv, Universe: true})
			cs = append(cs, c20Cfg{V: v, Interval: iv, Universe: true, Map: "1,."})
			cs = append(cs, c20Cfg{V: v, Interval: iv, Universe: true, Map: "1:2,Equity"})
			// a rule that collapses only SOME members of a group onto the group's own node
			cs = append(cs, c20Cfg{V: v, Interval: iv, Map: "1,AAPL"}, c20Cfg{V: v, Interval: iv, Universe: true, Map: "1,USD"})
			if !full && iv == ref.Monthly {
				cs = append(cs, c20Cfg{V: v, Interval: iv, Last: 1}, c20Cfg{V: v, Interval: iv, ComRx: "AAPL|USD"})
			}
			if full {
				cs = append(cs, c20Cfg{V: v, Interval: iv, Last: 1})
				cs = append(cs, c20Cfg{V: v, Interval: iv, To: "2020-03-02"})
				cs = append(cs, c20Cfg{V: v, Interval: iv, From: "2020-02-01", Last: 2})
				cs = append(cs, c20Cfg{V: v, Interval: iv, ComRx: "AAPL|USD"})
				cs = append(cs, c20Cfg{V: v, Interval: iv, Universe: true, Map: "2,Cash"})
			}
		}
	}
	return cs
}

// c20Core: the configurations used one level deeper in the quick tier.
func c20Core() []c20Cfg {
	return []c20Cfg{
		{V: "USD", Interval: ref.Monthly}, {V: "USD", Interval: ref.Monthly, Universe: true, Map: "1:2,Equity"}, {V: "USD", Interval: ref.Weekly, Universe: true},
		{V: "CHF", Interval: ref.Monthly}, {V: "CHF", Interval: ref.Monthly, AccRx: "Portfolio"}, {V: "CHF", Interval: ref.Once}, {V: "USD", Interval: ref.Daily, Universe: true, Map: "1:2,."},
	}
}

func c20Run(e *core.Env) {
	e.ReserveTail()
	drv := e.Driver()
	d3 := []string{"2020-01-30", "2020-02-29", "2020-03-18"}
	type plan struct {
		alpha []jr.Dir
		n     int
		cfgs  []c20Cfg
	}
	plans := []plan{{c20Alphabet(d3), 2, c20Cfgs(false)}, {c20Alphabet(d3[:2]), 3, c20Core()}}
	if e.Thorough() {
		plans = []plan{{c20Alphabet(d3), 3, c20Cfgs(true)}}
	}
	evalSeq := func(seq []jr.Dir, cfgs []c20Cfg) {
		for _, cfg := range cfgs {
			for _, cmd := range []string{"weights", "returns"} {
				if cmd == "returns" && (cfg.Universe || cfg.Map != "") {
					continue
				}
				if !e.Take() {
					continue
				}
				var key, detail string
				var out *core.Outcome
				if cmd == "weights" {
					key, detail, out = c20Weights(drv, seq, cfg)
				} else {
					key, detail, out = c20Returns(drv, seq, cfg)
				}
				e.Count("evaluations")
				switch detail {
				case "failed":
					e.Count("runs_failing_on_missing_price")
				case "ambiguous", "zero-total":
					e.Count("runs_skipped_" + detail)
				default:
					e.Count("distinct_nontrivial")
				}
				e.Distinct(out.Stdout)
				if e.CaseNo()%30011 == 0 {
					e.Sample(map[string]any{"journal": jr.ShortAll(seq), "cmd": cmd, "cfg": cfg})
				}
				if key != "" {
					cs := c20Case{cloneDirs(seq), cfg, cmd}
					e.Violation(key, detail, cs, func() bool {
						var k string
						if cs.Cmd == "weights" {
							k, _, _ = c20Weights(drv, cs.Body, cs.Cfg)
						} else {
							k, _, _ = c20Returns(drv, cs.Body, cs.Cfg)
						}
						return k == key
					})
				}
			}
		}
	}
	for _, pl := range plans {
		e.Note("journal alphabet %d symbols, depth <= %d, %d configurations x {weights, returns}", len(pl.alpha), pl.n, len(pl.cfgs))
		forEachSeq(e, pl.alpha, pl.n, func(seq []jr.Dir) {
			if ref.NewLedger(seq).SameDayPriceConflict() {
				return
			}
			evalSeq(seq, pl.cfgs)
		})
		e.SetBound(fmt.Sprintf("journal_depth_alphabet%d", len(pl.alpha)), pl.n)
	}
	e.BeginTail()
	if e.Take() {
		// several --account / --commodity expressions are a union: the report equals the one
		// for the alternation of the expressions. The two performance stages evaluate the same
		// filter objects on neighbouring days at the same time, so the comparison is made on the
		// free-running binary (a 2000-day journal, all CPUs, repeated) and the filtered
		// pipeline scenarios run under the race detector.
		drv := e.Driver()
		var b strings.Builder
		b.WriteString("2019-12-31 open Assets:Alpha\n2019-12-31 open Assets:Beta\n2019-12-31 open Assets:Other\n2019-12-31 open Equity:Opening\n2019-12-31 price AAA 2 CHF\n2019-12-31 price BBB 3 CHF\n2019-12-31 price CCC 5 CHF\n")
		d0 := time.Date(2020, 1, 1, 0, 0, 0, 0, time.UTC)
		for i := 0; i < 2000; i++ {
			d := d0.AddDate(0, 0, i).Format("2006-01-02")
			fmt.Fprintf(&b, "%s \"a\"\nEquity:Opening Assets:Alpha 1 AAA\n\n%s \"b\"\nEquity:Opening Assets:Beta 1 BBB\n\n%s \"c\"\nEquity:Opening Assets:Other 1 CCC\n\n", d, d, d)
		}
		drv.Files(map[string]string{"j.knut": b.String()})
		for _, fl := range [][2][]string{
			{{"--account", "Alpha", "--account", "Beta"}, {"--account", "Alpha|Beta"}},
			{{"--commodity", "AAA", "--commodity", "BBB"}, {"--commodity", "AAA|BBB"}},
		} {
			base := []string{"portfolio", "returns", "-v", "CHF", "--years"}
			want := drv.RunBinaryFree(2*time.Minute, append(append(append([]string(nil), base...), fl[1]...), "j.knut")...)
			e.Count("command_runs")
			if want.Exit != 0 || want.Abnormal() != "" {
				e.Violation("C20:command-failed:two-expressions", want.Stderr+want.Abnormal(), c20Case{}, nil)
				break
			}
			for rep := 0; rep < core.Pick(e, 6, 20); rep++ {
				e.Beat()
				o := drv.RunBinaryFree(2*time.Minute, append(append(append([]string(nil), base...), fl[0]...), "j.knut")...)
				e.Count("command_runs")
				e.Count("evaluations")
				if o.Exit != want.Exit || o.Stdout != want.Stdout {
					e.Violation("C20:filter-union-differs", fmt.Sprintf("knut portfolio returns -v CHF --years %s (run %d):\n%s%s\nwith %s:\n%s", strings.Join(fl[0], " "), rep, o.Stdout, o.Stderr, strings.Join(fl[1], " "), want.Stdout), c20Case{}, nil)
					break
				}
			}
		}
		raceTier(e, core.Pick(e, 4, 16), "C20", "pipe-returns")
	}
	// position life histories (see positionChains): portfolios that become empty and are funded again
	chainN := core.Pick(e, 4, 5)
	chainCfgs := []c20Cfg{{V: "CHF", Interval: ref.Daily}, {V: "USD", Interval: ref.Daily}, {V: "CHF", Interval: ref.Weekly}, {V: "CHF", Interval: ref.Daily, ComRx: "AAPL"}, {V: "USD", Interval: ref.Daily, AccRx: "Portfolio"}, {V: "CHF", Interval: ref.Daily, Last: 2},
		{V: "CHF", Interval: ref.Daily, Map: "1,AAPL"}, {V: "USD", Interval: ref.Daily, Universe: true, Map: "1,USD"}, {V: "CHF", Interval: ref.Weekly, Universe: true, Map: "2,AAPL"}}
	e.Note("position chains: 7 step kinds, <= %d steps on consecutive days, %d configurations x {weights, returns}", chainN, len(chainCfgs))
	positionChains(e, chainN, func(seq []jr.Dir) { evalSeq(seq, chainCfgs) })
	e.SetBound("position_chain_steps", chainN)
}

func c20Replay(e *core.Env, data json.RawMessage) (bool, string) {
	var cs c20Case
	if err := json.Unmarshal(data, &cs); err != nil {
		return false, err.Error()
	}
	var k, d string
	if cs.Cmd == "weights" {
		k, d, _ = c20Weights(e.Driver(), cs.Body, cs.Cfg)
	} else {
		k, d, _ = c20Returns(e.Driver(), cs.Body, cs.Cfg)
	}
	return k != "", k + "\n" + d
}

func init() {
	core.Register(&core.Check{
		ID: "C20", Level: "model_checking", Run: c20Run, Replay: c20Replay,
		Added:       "position life histories; --last and --commodity configurations; first period under --last measured from its own start; subset-collapsing -m rules; accrual in the alphabet (instalments are ordinary flows)",
		QuickBudget: 100 * time.Second, ThoroughBudget: 14 * time.Minute,
		Rule: "every journal of <= N directives over {deposits in CHF/USD/AAPL, withdrawal, transfer between asset accounts, salary, dividend with @performance, two price series} x 3 dates (period ends fall on days without directives) x valuation {CHF,USD} x intervals x --account/--commodity filters x universe file x -m; " +
			"weights: every cell compared with value/total of the reference mark-to-market values (the same reference C03 validates against `balance -v`), groups = sum of members, columns = period ends with holdings; returns: exactly one line per period of the reference partition, 0% for periods without price change, end/start-1 for periods without flows (to the printed precision); non-trivial = runs that produce a report",
		Assumptions: []string{"returns of periods that mix flows and price changes, or contain @performance transactions, are only checked for presence and format (the statement fixes two cases)",
			"weights whose total value is zero are skipped", "returns of periods in which the portfolio is empty or overdrawn at the start or on a day inside are undefined (knut prints NaN/Inf) and only checked for presence", "float comparisons at 2e-6 (weights) and the printed 0.1% precision (returns)"},
	})
}
