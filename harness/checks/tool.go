package checks

import (
	"fmt"
	"os"
	"strconv"
	"time"

	"kmc/core"
)

// Explore is an experiment entry point: kmc explore <preempt> <free> <map> -- args...
// run in the current directory's files.
func Explore(args []string) int {
	p, _ := strconv.Atoi(args[0])
	f, _ := strconv.Atoi(args[1])
	m, _ := strconv.Atoi(args[2])
	cmdArgs := args[4:]
	cwd, _ := os.Getwd()
	drv := core.NewDriver("explore")
	defer drv.Close()
	os.Chdir(cwd)
	outcomes := map[string]int{}
	x := core.Explorer{Bounds: core.Bounds{Preempt: p, Free: f, Map: m}, NoMap: m == 0, MaxExec: 2000000, Cache: args[3] == "cache"}
	start := time.Now()
	var first *core.Outcome
	st := x.Explore(func(c *core.Ctx) {
		o := drv.Run(c, cmdArgs...)
		if o.Pruned {
			return
		}
		k := o.Key()
		if o.Exit != 0 {
			k += "\nSTDERR:" + o.Stderr
		}
		if first == nil {
			first = o
		}
		outcomes[k]++
	}, func(c *core.Ctx) bool { return true })
	fmt.Printf("pruned=%d cached=%d ", st.Pruned, st.CachedStates)
	fmt.Printf("bounds=%v executions=%d states=%d maxdepth=%d completed=%d capped=%v perkind=%v outcomes=%d wall=%.1fs steps=%d goroutines=%d\n",
		x.Bounds, st.Executions, st.States, st.MaxDepth, st.BoundCompleted, st.Capped, st.PerKind, len(outcomes), time.Since(start).Seconds(), first.Steps, first.Goroutines)
	for k, n := range outcomes {
		fmt.Printf("--- %d x ---\n%s\n", n, k)
	}
	return 0
}
