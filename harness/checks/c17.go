package checks

import (
	"bytes"
	"encoding/json"
	"fmt"
	"math/big"
	"strings"
	"time"
	"unicode/utf8"

	"kmc/core"
	"kmc/jr"
	"kmc/ref"

	"github.com/fatih/color"
	"github.com/sboehler/knut/lib/common/table"
	"github.com/shopspring/decimal"
)

// C17 — rendered balance tables are rectangular and numerically faithful.

var c17Amounts = []string{"0", "0.00000001", "0.4", "0.5", "0.05", "0.005", "0.0005", "0.4995", "499.5", "500", "999.5", "999.95", "999.995", "1000", "999999.5",
	"1234567.891", "1000000000000000", "12.345", "2.5", "1.5",
	// coefficients beyond int64 / float64 precision at 8 decimals: 2^64+1 and 2^64 (truncate to 1 and 0), 1e15 + 1e-8
	"184467440737.09551617", "184467440737.09551616", "1000000000000000.00000001",
	// coefficients of exactly 64 bits at 8 decimals: 2^63, 2^64-1, 95e9
	"92233720368.54775808", "184467440737.09551615", "95000000000.00000001"}

func c17All() []string {
	var res []string
	for _, a := range c17Amounts {
		res = append(res, a)
		if a != "0" {
			res = append(res, "-"+a)
		}
	}
	return res
}

// wantCell is the reference rendering rule (DESIGN A.10). It returns the set of
// acceptable strings.
func wantCell(amount string, digits int, thousands bool) []string {
	v := ref.Q(amount)
	if v.Sign() == 0 {
		return []string{""}
	}
	if thousands {
		v = new(big.Rat).Quo(v, big.NewRat(1000, 1))
	}
	r := ref.RoundHalfAway(v, digits)
	s := ref.Fixed(ref.Abs(r), digits)
	// group the integer part
	intPart, frac := s, ""
	if i := strings.IndexByte(s, '.'); i >= 0 {
		intPart, frac = s[:i], s[i:]
	}
	var g strings.Builder
	for i, ch := range intPart {
		if i > 0 && (len(intPart)-i)%3 == 0 {
			g.WriteByte(',')
		}
		g.WriteRune(ch)
	}
	body := g.String() + frac
	if v.Sign() > 0 {
		return []string{body}
	}
	if r.Sign() == 0 {
		// a negative amount whose rounded magnitude is zero: the statement does not say
		// whether "-0" or "0" is shown; both are accepted
		return []string{"-" + body, body}
	}
	return []string{"-" + body}
}

// commodity names are letters of any script (text cells added with AddText)
var c17Coms = []string{"CHF", "ÖLFÖNDS", "Ωμ", "X"}

type c17Case struct {
	Names    []string
	Indents  []int
	Rows     [][]string
	Digits   int
	K        bool
	JournalQ []string `json:",omitempty"`
}

func c17Table(cs c17Case) (string, string, string) {
	ncols := len(cs.Rows[0])
	t := table.New(1, 1, ncols)
	t.AddSeparatorRow()
	h := t.AddRow().AddText("Account", table.Center).AddText("Comm", table.Center)
	for i := 0; i < ncols; i++ {
		h.AddText(fmt.Sprintf("2020-0%d-01", i+1), table.Center)
	}
	t.AddSeparatorRow()
	for i, r := range cs.Rows {
		row := t.AddRow().AddIndented(cs.Names[i%len(cs.Names)], cs.Indents[i%len(cs.Indents)]).AddText(c17Coms[i%len(c17Coms)], table.Left)
		for _, a := range r {
			row.AddDecimal(decimal.RequireFromString(a))
		}
		if i == 0 {
			t.AddEmptyRow()
		}
	}
	t.AddRow().AddIndented("Delta", 0).FillEmpty()
	t.AddSeparatorRow()
	var txt, csv bytes.Buffer
	var perr string
	func() {
		defer func() {
			if r := recover(); r != nil {
				perr = fmt.Sprint(r)
			}
		}()
		color.NoColor = true
		tr := &table.TextRenderer{Color: false, Thousands: cs.K, Round: int32(cs.Digits)}
		if err := tr.Render(t, &txt); err != nil {
			perr = err.Error()
		}
		if err := (&table.CSVRenderer{}).Render(t, &csv); err != nil {
			perr = err.Error()
		}
	}()
	return txt.String(), csv.String(), perr
}

func c17Check(cs c17Case) (string, string) {
	txt, csv, perr := c17Table(cs)
	if perr != "" {
		return "C17:render-panics", perr
	}
	tt, err := ref.ParseTextTable(txt)
	if err != nil {
		return "C17:not-rectangular", err.Error() + "\n" + txt
	}
	rows := tt.Rows
	var data []ref.TextRow
	for _, r := range rows {
		if r.Name != "" && r.Name != "Delta" {
			data = append(data, r)
		}
	}
	if len(data) != len(cs.Rows) {
		return "C17:rows-lost", fmt.Sprintf("%d data rows, want %d\n%s", len(data), len(cs.Rows), txt)
	}
	for i, r := range data {
		if r.Name != cs.Names[i%len(cs.Names)] || r.Indent != cs.Indents[i%len(cs.Indents)] {
			return "C17:name-cell", fmt.Sprintf("row %d name %q indent %d, want %q indent %d\n%s", i, r.Name, r.Indent, cs.Names[i%len(cs.Names)], cs.Indents[i%len(cs.Indents)], txt)
		}
		for j, a := range cs.Rows[i] {
			got := r.Cells[1+j]
			ok := false
			want := wantCell(a, cs.Digits, cs.K)
			for _, w := range want {
				ok = ok || got == w
			}
			if !ok {
				return "C17:numeric-cell", fmt.Sprintf("amount %s digits %d thousands %v rendered as %q, want %q\n%s", a, cs.Digits, cs.K, got, want[0], txt)
			}
		}
	}
	crow, err := ref.ParseCSVTable(csv)
	if err != nil {
		return "C17:csv-malformed", err.Error()
	}
	if len(crow) != len(cs.Rows)+2 {
		return "C17:csv-rows", fmt.Sprintf("%d csv rows, want %d\n%s", len(crow), len(cs.Rows)+2, csv)
	}
	for i := range cs.Rows {
		rec := crow[i+1]
		if rec[0] != cs.Names[i%len(cs.Names)] {
			return "C17:csv-name", fmt.Sprintf("csv row %d name %q", i, rec[0])
		}
		for j, a := range cs.Rows[i] {
			v, err := ref.ParseNum(rec[2+j])
			if err != nil || strings.Contains(rec[2+j], ",") || v.Cmp(ref.Q(a)) != 0 {
				return "C17:csv-cell", fmt.Sprintf("amount %s appears as %q in the csv", a, rec[2+j])
			}
		}
	}
	return "", ""
}

// c17Journal places amounts into a journal and compares the text and CSV reports of
// the real balance command row by row.
func c17Journal(drv *core.Driver, qs []string, digits int, k bool) (string, string) {
	body := []jr.Dir{}
	accs := []string{accChecking, accBaenk, accCash}
	for i, q := range qs {
		body = append(body, jr.T("2020-01-31", "x", jr.B(accOpening, accs[i%len(accs)], q, []string{"CHF", "USD", "ÖLFÖNDS"}[i%3])))
	}
	all := append(opensPrefix(), body...)
	drv.Files(map[string]string{"j.knut": jr.RenderAll(all)})
	targs := []string{"balance", "--color=false", "--digits", fmt.Sprint(digits), "-a"}
	if k {
		targs = append(targs, "-k")
	}
	t := drv.Run(nil, append(targs, "j.knut")...)
	c := drv.Run(nil, "balance", "--csv", "-a", "j.knut")
	ctx := fmt.Sprintf("\namounts %v digits %d thousands %v\ntext:\n%s\ncsv:\n%s", qs, digits, k, t.Stdout, c.Stdout)
	// the CSV rendering carries the exact amounts whatever the display flags are
	cargs := append(append([]string{"balance", "--csv"}, targs[2:]...), "j.knut")
	if c2 := drv.Run(nil, cargs...); c2.Exit != c.Exit || c2.Stdout != c.Stdout {
		return "C17:csv-depends-on-display-flags", fmt.Sprintf("`knut %s` differs from the plain --csv output:\n%s", strings.Join(cargs, " "), c2.Stdout) + ctx
	}
	if t.Exit != 0 || c.Exit != 0 || t.Abnormal() != "" || c.Abnormal() != "" {
		return "C17:command-failed", t.Stderr + c.Stderr + t.Abnormal() + c.Abnormal() + ctx
	}
	tt, err := ref.ParseTextTable(t.Stdout)
	if err != nil {
		return "C17:not-rectangular:command", err.Error() + ctx
	}
	crow, err := ref.ParseCSVTable(c.Stdout)
	if err != nil {
		return "C17:csv-malformed", err.Error() + ctx
	}
	var trows []ref.TextRow
	for _, r := range tt.Rows {
		blank := r.Name == ""
		for _, cell := range r.Cells {
			blank = blank && cell == ""
		}
		if !blank {
			trows = append(trows, r)
		}
	}
	if len(crow) == 0 || len(trows) != len(crow)-1 {
		return "C17:row-count:command", fmt.Sprintf("%d text rows vs %d csv rows", len(trows), len(crow)-1) + ctx
	}
	for i, r := range trows {
		rec := crow[i+1]
		if rec[0] != r.Name || rec[1] != r.Cells[0] {
			return "C17:row-position:command", fmt.Sprintf("row %d: text %q/%q vs csv %q/%q", i, r.Name, r.Cells[0], rec[0], rec[1]) + ctx
		}
		for j := 2; j < len(rec); j++ {
			got := r.Cells[j-1]
			exact := rec[j]
			if exact == "" {
				exact = "0"
			}
			ok := false
			want := wantCell(exact, digits, k)
			for _, w := range want {
				ok = ok || w == got
			}
			if !ok {
				return "C17:numeric-cell:command", fmt.Sprintf("row %s: csv %s shown as %q, want %q", r.Name, rec[j], got, want[0]) + ctx
			}
		}
	}
	return "", ""
}

func c17Run(e *core.Env) {
	e.ReserveTail()
	amounts := c17All()
	digits := []int{0, 1, 2, 3, 8}
	names := [][]string{{"A"}, {"Assets", "Bänk"}, {"資産口座", "Checking"}, {strings.Repeat("LongAccountName", 3), "x"}}
	indents := [][]int{{0}, {2, 4}, {0, 6}}
	try := func(cs c17Case) {
		if !e.Take() {
			return
		}
		key, detail := c17Check(cs)
		e.Count("evaluations")
		e.Count("states")
		e.Add("transitions", len(cs.Rows)*len(cs.Rows[0]))
		e.Count("distinct_nontrivial")
		if e.CaseNo()%40009 == 0 {
			e.Sample(cs)
		}
		if key != "" {
			e.Violation(key, detail, cs, func() bool { k, _ := c17Check(cs); return k == key })
		}
	}
	for _, d := range digits {
		for _, k := range []bool{false, true} {
			for ni, nm := range names {
				for ii, in := range indents {
					// two rows, one number column: every ordered pair of amounts
					if (ni+ii)%2 == 0 || e.Thorough() {
						for _, a := range amounts {
							for _, b := range amounts {
								try(c17Case{Names: nm, Indents: in, Rows: [][]string{{a}, {b}}, Digits: d, K: k})
							}
						}
					}
					// one row, three number columns over a subset
					sub := amounts
					if !e.Thorough() {
						sub = amounts[:14]
					}
					if ni == ii {
						for _, a := range sub {
							for _, b := range sub {
								for _, c := range sub {
									try(c17Case{Names: nm, Indents: in, Rows: [][]string{{a, b, c}}, Digits: d, K: k})
								}
							}
						}
					}
				}
			}
		}
		if e.Expired() {
			return
		}
	}
	// command level
	drv := e.Driver()
	for _, d := range digits {
		for _, k := range []bool{false, true} {
			for i, a := range amounts {
				for j, b := range amounts {
					if !e.Thorough() && (i+j)%3 != 0 {
						continue
					}
					if !e.Take() {
						continue
					}
					qs := []string{a, b, amounts[(i+j)%len(amounts)]}
					key, detail := c17Journal(drv, qs, d, k)
					e.Count("evaluations")
					e.Count("command_level_cases")
					if key != "" {
						e.Violation(key, detail, c17Case{JournalQ: qs, Digits: d, K: k}, nil)
					}
				}
			}
		}
	}
	e.BeginTail()
	if e.Take() {
		// large tables (700 rows): the renderer may take another code path for them. The
		// real binary is run free with all CPUs and every line must have the same width;
		// the race detector decides whether rows are measured/printed without synchronisation.
		sc := raceOnlyScenario("big-table-balance")
		drv.Files(sc.Files)
		for i := 0; i < core.Pick(e, 8, 40); i++ {
			o := drv.RunBinary(sc.Args...)
			e.Count("evaluations")
			e.Count("large_table_runs")
			if o.Exit != 0 {
				e.Violation("C17:large-table-failure", o.Stderr, c17Case{}, nil)
				break
			}
			w := -1
			bad := ""
			for ln, l := range strings.Split(strings.TrimRight(o.Stdout, "\n"), "\n") {
				n := utf8.RuneCountInString(l)
				if w < 0 {
					w = n
				} else if n != w && l != "" {
					bad = fmt.Sprintf("line %d is %d wide, line 0 is %d wide: %q", ln, n, w, l)
					break
				}
			}
			if bad != "" {
				e.Violation("C17:not-rectangular:large-table", "balance of a 700-account journal (run "+fmt.Sprint(i+1)+"): "+bad, c17Case{}, nil)
				break
			}
		}
		raceTier(e, core.Pick(e, 3, 12), "C17", "big-table")
	}
}

func c17Replay(e *core.Env, data json.RawMessage) (bool, string) {
	var cs c17Case
	if err := json.Unmarshal(data, &cs); err != nil {
		return false, err.Error()
	}
	if len(cs.JournalQ) > 0 {
		k, d := c17Journal(e.Driver(), cs.JournalQ, cs.Digits, cs.K)
		return k != "", k + " " + d
	}
	k, d := c17Check(cs)
	return k != "", k + " " + d
}

func init() {
	core.Register(&core.Check{
		ID: "C17", Level: "model_checking", Run: c17Run, Replay: c17Replay,
		Added:       "amounts 2^64+1, 2^64, 1e15+1e-8; CSV must not depend on display flags; 700-row tables: line widths on the free-running binary + race detector",
		QuickBudget: 90 * time.Second, ThoroughBudget: 14 * time.Minute,
		Rule: "tables built through the real table API with every ordered pair (2 rows) and triple (3 columns) of 45 signed amounts (1e-8 .. 1e15, rounding boundaries x.5, 999.5, 999.95, 0.0005 for -k) x digits {0,1,2,3,8} x thousands on/off x ASCII/umlaut/CJK/long names x indents; " +
			"the text rendering is parsed with a geometry-checking reader and every numeric cell compared with a big-rational reference formatter; CSV compared exactly; command level: amounts placed in journals, balance text vs --csv row by row",
		Assumptions: []string{"a negative amount whose rounded magnitude is zero may be shown as 0 or -0 (the statement does not decide)", "width is measured in runes (as the statement's mechanism says), not terminal cells"},
	})
}
