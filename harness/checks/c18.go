package checks

import (
	"bytes"
	"encoding/hex"
	"encoding/json"
	"fmt"
	"os"
	"os/exec"
	"path/filepath"
	"regexp"
	"sort"
	"strconv"
	"strings"
	"time"

	"kmc/core"
	"kmc/jr"
)

// C18 — in-place rewrites are all-or-nothing (fault enumeration on the REAL binary).
//
// Four exhaustive enumerations over one recorded history per scenario:
//  1. RLIMIT_FSIZE = k for every byte offset k (prlimit): the kernel cuts the write of
//     the new content at exactly k bytes;
//  2. every file-system syscall index x {ENOSPC, EIO, EACCES} (strace -e inject=...:error);
//  3. SIGKILL at every syscall index (strace -e inject=...:signal=KILL);
//  4. power loss: an explicit-state persistence model over the recorded syscall trace:
//     every prefix of the history x every subset of not-yet-fsynced data writes dropped.
// Oracle: afterwards every target file holds its complete old or complete new bytes.

type c18Scenario struct {
	Name     string
	Files    map[string]string // old contents
	Args     []string
	Targets  []string          // files that may be rewritten
	Links    map[string]string // symbolic links created in the scratch directory: name -> target
	Loops    []string          // arguments that are symbolic links to themselves
	MustFail bool              // the command fails before writing: no target may change, in the fault-free run either
	Broken   string            // several files: the one that does not parse (all others must be rewritten whatever the number of CPUs)
	New      map[string]string // expected new contents (target -> bytes); absent = must stay old
	newVia   map[string]string // new contents as read through each link name
}

func c18Unformatted(n int) string {
	var b strings.Builder
	b.WriteString("# journal\n2019-12-31   open    Assets:Bank\n2019-12-31 open Expenses:Food\n\n")
	for i := 0; b.Len() < n; i++ {
		fmt.Fprintf(&b, "2020-01-%02d   \"purchase number %d\"\nAssets:Bank    Expenses:Food     %d.50   CHF\n\n// note %d\n", 1+i%28, i, i, i)
	}
	return b.String()
}

var knutPlain = core.BinaryPath

func c18Dir(e *core.Env) string {
	base := "/dev/shm"
	if st, err := os.Stat(base); err != nil || !st.IsDir() {
		base = filepath.Join(core.Root, ".cache", "run")
	}
	d := filepath.Join(base, fmt.Sprintf("kmc-C18-%d", os.Getpid()))
	os.RemoveAll(d)
	os.MkdirAll(d, 0o755)
	return d
}

var c18Links map[string]string

// c18Loops: names created as symbolic links to themselves (stat fails with ELOOP)
var c18Loops []string

func c18Reset(dir string, files map[string]string) {
	defer func() {
		for n, t := range c18Links {
			os.Symlink(t, filepath.Join(dir, n))
		}
		for _, n := range c18Loops {
			os.Symlink(n, filepath.Join(dir, n))
		}
	}()
	ents, _ := os.ReadDir(dir)
	for _, en := range ents {
		os.RemoveAll(filepath.Join(dir, en.Name()))
	}
	for n, c := range files {
		os.WriteFile(filepath.Join(dir, n), []byte(c), 0o644)
	}
}

// c18Expected computes the new contents with a clean run of the real binary.
func c18Expected(dir string, sc *c18Scenario) error {
	c18Reset(dir, sc.Files)
	cmd := exec.Command(knutPlain, sc.Args...)
	cmd.Dir = dir
	cmd.Run()
	sc.New = map[string]string{}
	sc.newVia = map[string]string{}
	for n, t := range sc.Links {
		if b, err := os.ReadFile(filepath.Join(dir, n)); err == nil {
			sc.newVia[n] = string(b)
			// the command may replace the link by a regular file (atomic rename): then the
			// link name carries the new contents and the real file keeps the old ones
			if string(b) != sc.Files[t] {
				sc.New[t] = string(b)
			}
		}
	}
	for _, t := range sc.Targets {
		b, err := os.ReadFile(filepath.Join(dir, t))
		if err != nil {
			return err
		}
		if string(b) != sc.Files[t] {
			sc.New[t] = string(b)
		}
	}
	return nil
}

// c18Verify checks the all-or-nothing invariant on the files in dir.
func c18Verify(dir string, sc *c18Scenario) (string, string) {
	// what a symbolic link name resolves to must also be complete old or new contents
	for n, t := range sc.Links {
		b, err := os.ReadFile(filepath.Join(dir, n))
		if err != nil {
			return "C18:target-missing", fmt.Sprintf("%s: %v", n, err)
		}
		if nw, ok := sc.New[t]; string(b) != sc.Files[t] && !(ok && string(b) == nw) && !(sc.newVia != nil && string(b) == sc.newVia[n]) {
			return "C18:truncated-or-mixed-via-symlink", fmt.Sprintf("%s (-> %s) holds %d bytes that are neither old nor new contents", n, t, len(b))
		}
	}
	for _, t := range sc.Targets {
		b, err := os.ReadFile(filepath.Join(dir, t))
		if err != nil {
			return "C18:target-missing", fmt.Sprintf("%s: %v", t, err)
		}
		got := string(b)
		if got == sc.Files[t] {
			continue
		}
		if nw, ok := sc.New[t]; ok && got == nw {
			continue
		}
		kind := "mixed-content"
		if nw, ok := sc.New[t]; ok && strings.HasPrefix(nw, got) {
			kind = "truncated"
		} else if _, ok := sc.New[t]; !ok {
			kind = "file-that-must-not-change-was-modified"
		}
		return "C18:" + kind, fmt.Sprintf("%s holds %d bytes that are neither its old (%d bytes) nor its new (%d bytes) contents: %q...", t, len(got), len(sc.Files[t]), len(sc.New[t]), clip(got, 80))
	}
	return "", ""
}

var c18Procs = "2"

func c18RunFault(dir string, sc *c18Scenario, wrapper []string) (int, string) {
	c18Reset(dir, sc.Files)
	args := append(append([]string(nil), wrapper...), knutPlain)
	args = append(args, sc.Args...)
	cmd := exec.Command(args[0], args[1:]...)
	cmd.Dir = dir
	cmd.Env = append(os.Environ(), "GOMAXPROCS="+c18Procs)
	var se bytes.Buffer
	cmd.Stderr = &se
	cmd.Stdout = &se
	err := cmd.Run()
	code := 0
	if err != nil {
		code = 1
		if ee, ok := err.(*exec.ExitError); ok {
			code = ee.ExitCode()
		}
	}
	return code, se.String()
}

const c18Trace = "openat,creat,open,write,pwrite64,writev,fsync,fdatasync,ftruncate,truncate,fchmodat,fchmod,chmod,renameat,renameat2,rename,unlinkat,unlink,close,linkat"

type c18Op struct {
	Call string
	Path string // resolved path (or fd path)
	Dst  string
	Data []byte
	Flag string
	Ret  int
	FD   string
}

var (
	reSys    = regexp.MustCompile(`^(?:\d+\s+)?([a-z0-9_]+)\((.*)\)\s+=\s+(-?\d+)(?:<([^>]*)>)?`)
	reFdPath = regexp.MustCompile(`^(\d+)<([^>]*)>`)
	reQuoted = regexp.MustCompile(`"((?:\\x[0-9a-f]{2})*)"`)
)

func unhexPath(s string) string {
	if strings.HasPrefix(s, `\x`) {
		return string(unhex(s))
	}
	return s
}

func unhex(s string) []byte {
	s = strings.ReplaceAll(s, `\x`, "")
	b, _ := hex.DecodeString(s)
	return b
}

// c18Record runs the command under strace and returns the file-system operations that
// touch the scratch directory, in order.
func c18Record(dir string, sc *c18Scenario) ([]c18Op, map[string]int, error) {
	c18Reset(dir, sc.Files)
	logf := filepath.Join(dir, ".strace.log")
	cmd := exec.Command("strace", "-f", "-y", "-xx", "-s", "200000", "-o", logf, "-e", "trace="+c18Trace, knutPlain)
	cmd.Args = append(cmd.Args, sc.Args...)
	cmd.Dir = dir
	cmd.Env = append(os.Environ(), "GOMAXPROCS=2")
	cmd.Run()
	raw, err := os.ReadFile(logf)
	if err != nil {
		return nil, nil, err
	}
	os.Remove(logf)
	counts := map[string]int{}
	var ops []c18Op
	pendingLine := map[string]string{} // pid -> unfinished prefix
	reUnf := regexp.MustCompile(`^(\d+)\s+(.*) <unfinished \.\.\.>$`)
	reRes := regexp.MustCompile(`^(\d+)\s+<\.\.\. [a-z0-9_]+ resumed>(.*)$`)
	for _, line := range strings.Split(string(raw), "\n") {
		// strace -f splits a call that overlaps with another thread's call into an
		// "unfinished" and a "resumed" line: join them (the call takes effect when it
		// completes)
		if m := reUnf.FindStringSubmatch(line); m != nil {
			pendingLine[m[1]] = m[2]
			continue
		}
		if m := reRes.FindStringSubmatch(line); m != nil {
			line = m[1] + " " + pendingLine[m[1]] + m[2]
			delete(pendingLine, m[1])
		}
		m := reSys.FindStringSubmatch(line)
		if m == nil {
			continue
		}
		call, args := m[1], m[2]
		counts[call]++
		ret, _ := strconv.Atoi(m[3])
		op := c18Op{Call: call, Ret: ret}
		qs := reQuoted.FindAllStringSubmatch(args, -1)
		switch call {
		case "openat", "open", "creat":
			if len(qs) == 0 {
				continue
			}
			op.Path = string(unhex(qs[0][1]))
			if !filepath.IsAbs(op.Path) {
				op.Path = filepath.Join(dir, op.Path)
			}
			op.Flag = args
			if m[4] != "" {
				op.Path = unhexPath(m[4])
			}
		case "write", "pwrite64":
			fm := reFdPath.FindStringSubmatch(args)
			if fm == nil {
				continue
			}
			op.Path = unhexPath(fm[2])
			if len(qs) > 0 {
				op.Data = unhex(qs[0][1])
				if ret >= 0 && ret < len(op.Data) {
					op.Data = op.Data[:ret]
				}
			}
		case "fsync", "fdatasync", "close", "fchmod", "ftruncate":
			fm := reFdPath.FindStringSubmatch(args)
			if fm == nil {
				continue
			}
			op.Path = unhexPath(fm[2])
		case "renameat", "renameat2", "rename", "linkat":
			if len(qs) < 2 {
				continue
			}
			op.Path, op.Dst = string(unhex(qs[0][1])), string(unhex(qs[1][1]))
			if !filepath.IsAbs(op.Path) {
				op.Path = filepath.Join(dir, op.Path)
			}
			if !filepath.IsAbs(op.Dst) {
				op.Dst = filepath.Join(dir, op.Dst)
			}
		case "unlinkat", "unlink", "fchmodat", "chmod", "truncate":
			if len(qs) == 0 {
				continue
			}
			op.Path = string(unhex(qs[0][1]))
			if !filepath.IsAbs(op.Path) {
				op.Path = filepath.Join(dir, op.Path)
			}
		default:
			continue
		}
		if ret < 0 || !strings.HasPrefix(op.Path, dir+"/") {
			continue
		}
		ops = append(ops, op)
	}
	return ops, counts, nil
}

// ---------------------------------------------------------------------------------
// Persistence model (ALICE style): metadata operations persist in order; each data
// write since the last fsync of its file may or may not have reached the disk.

type c18Inode struct {
	durable []byte   // content guaranteed on disk
	pending [][]byte // appended writes since the last fsync
	trunc   bool
}

func c18Model(dir string, sc *c18Scenario, ops []c18Op) (states int, key, detail string) {
	type fsState struct {
		names  map[string]*c18Inode
		inodes []*c18Inode
	}
	mk := func() *fsState {
		s := &fsState{names: map[string]*c18Inode{}}
		for n, c := range sc.Files {
			in := &c18Inode{durable: []byte(c)}
			s.names[filepath.Join(dir, n)] = in
			s.inodes = append(s.inodes, in)
		}
		return s
	}
	st := mk()
	check := func(prefix int) (string, string) {
		// enumerate every subset of pending writes per inode: a dropped write leaves a
		// hole; we model the observable content as the durable bytes followed by the
		// persisted pending writes in order (dropped ones and everything after the
		// first dropped one of an append-only file are lost or garbage => not old/new)
		for _, t := range sc.Targets {
			in := st.names[filepath.Join(dir, t)]
			if in == nil {
				return "C18:power-loss:target-missing", fmt.Sprintf("after %d operations a crash leaves no file named %s", prefix, t)
			}
			n := len(in.pending)
			if n > 12 {
				n = 12
			}
			for mask := 0; mask < 1<<n; mask++ {
				states++
				content := append([]byte(nil), in.durable...)
				for i := 0; i < len(in.pending); i++ {
					if i < n && mask&(1<<i) == 0 {
						// write i did not reach the disk: the region holds zeros (sparse)
						content = append(content, make([]byte, len(in.pending[i]))...)
					} else {
						content = append(content, in.pending[i]...)
					}
				}
				got := string(content)
				if got == sc.Files[t] {
					continue
				}
				if nw, ok := sc.New[t]; ok && got == nw {
					continue
				}
				return "C18:power-loss:torn-target", fmt.Sprintf("power loss after operation %d (%s) with unsynced writes %b persisted can leave %s with %d bytes that are neither old nor new", prefix, opStr(ops, prefix), mask, t, len(got))
			}
		}
		return "", ""
	}
	if k, d := check(0); k != "" {
		return states, k, d
	}
	for i, op := range ops {
		switch op.Call {
		case "openat", "open", "creat":
			in := st.names[op.Path]
			if in == nil && (strings.Contains(op.Flag, "O_CREAT") || op.Call == "creat") {
				in = &c18Inode{}
				st.names[op.Path] = in
				st.inodes = append(st.inodes, in)
			}
			if in != nil && (strings.Contains(op.Flag, "O_TRUNC") || op.Call == "creat") {
				// truncation is a metadata operation: persists in order
				in.durable, in.pending = nil, nil
			}
		case "write", "pwrite64":
			if in := st.names[op.Path]; in != nil {
				in.pending = append(in.pending, op.Data)
			}
		case "fsync", "fdatasync":
			if in := st.names[op.Path]; in != nil {
				for _, p := range in.pending {
					in.durable = append(in.durable, p...)
				}
				in.pending = nil
			}
		case "ftruncate", "truncate":
			if in := st.names[op.Path]; in != nil {
				in.durable, in.pending = nil, nil
			}
		case "renameat", "renameat2", "rename":
			if in := st.names[op.Path]; in != nil {
				st.names[op.Dst] = in
				delete(st.names, op.Path)
			}
		case "linkat":
			if in := st.names[op.Path]; in != nil {
				st.names[op.Dst] = in
			}
		case "unlinkat", "unlink":
			delete(st.names, op.Path)
		}
		if k, d := check(i + 1); k != "" {
			return states, k, d
		}
	}
	return states, "", ""
}

func opStr(ops []c18Op, prefix int) string {
	if prefix == 0 || prefix > len(ops) {
		return "start"
	}
	o := ops[prefix-1]
	return fmt.Sprintf("%s %s %s", o.Call, filepath.Base(o.Path), filepath.Base(o.Dst))
}

// ---------------------------------------------------------------------------------

type c18Case struct {
	Scenario string
	Fault    string
}

func c18Scenarios(e *core.Env) []c18Scenario {
	train := "2020-01-01 open Assets:Bank\n2020-01-02 \"purchase\"\nAssets:Bank Expenses:Food 10 CHF\n\n"
	target := "# to do\n2020-02-01   \"purchase number 7\"\nAssets:Bank     Expenses:TBD   7 CHF\n\n"
	broken := c18Unformatted(300) + "2020-01-30 opn Assets:X\n"
	ss := []c18Scenario{
		{Name: "format-tiny", Files: map[string]string{"f.knut": "2020-01-01   open    Assets:Bank\n"}, Args: []string{"format", "f.knut"}, Targets: []string{"f.knut"}},
		{Name: "format-1k", Files: map[string]string{"f.knut": c18Unformatted(1024)}, Args: []string{"format", "f.knut"}, Targets: []string{"f.knut"}},
		{Name: "format-40k", Files: map[string]string{"f.knut": c18Unformatted(40 * 1024)}, Args: []string{"format", "f.knut"}, Targets: []string{"f.knut"}},
		{Name: "format-unparseable", Files: map[string]string{"f.knut": broken}, Args: []string{"format", "f.knut"}, Targets: []string{"f.knut"}},
		{Name: "format-three-files-middle-broken", Files: map[string]string{"a.knut": c18Unformatted(700), "b.knut": broken, "c.knut": c18Unformatted(900)},
			Args: []string{"format", "a.knut", "b.knut", "c.knut"}, Targets: []string{"a.knut", "b.knut", "c.knut"}},
		{Name: "format-six-files-first-broken", Files: map[string]string{"a.knut": broken, "b.knut": c18Unformatted(300), "c.knut": c18Unformatted(400), "d.knut": c18Unformatted(500), "e.knut": c18Unformatted(600), "f.knut": c18Unformatted(700)},
			Args: []string{"format", "a.knut", "b.knut", "c.knut", "d.knut", "e.knut", "f.knut"}, Targets: []string{"a.knut", "b.knut", "c.knut", "d.knut", "e.knut", "f.knut"}, Broken: "a.knut"},
		// arguments that cannot even be stat'ed (links to themselves, a path below a regular
		// file), listed before five good files: every good file must still be rewritten
		{Name: "format-unreadable-paths-first", Files: map[string]string{"b.knut": c18Unformatted(300), "c.knut": c18Unformatted(400), "d.knut": c18Unformatted(500), "e.knut": c18Unformatted(600), "f.knut": c18Unformatted(700)},
			Loops: []string{"loop1.knut", "loop2.knut", "loop3.knut"},
			Args:  []string{"format", "loop1.knut", "loop2.knut", "b.knut/below.knut", "loop3.knut", "b.knut", "c.knut", "d.knut", "e.knut", "f.knut"}, Targets: []string{"b.knut", "c.knut", "d.knut", "e.knut", "f.knut"}, Broken: "-"},
		{Name: "format-through-symlink", Files: map[string]string{"real.knut": c18Unformatted(900)}, Links: map[string]string{"link.knut": "real.knut"},
			Args: []string{"format", "link.knut"}, Targets: []string{"real.knut"}},
		{Name: "infer-inplace-through-symlink", Files: map[string]string{"train.knut": train, "real.knut": target + c18Unformatted(3000)}, Links: map[string]string{"link.knut": "real.knut"},
			Args: []string{"infer", "-t", "train.knut", "--inplace", "link.knut"}, Targets: []string{"real.knut", "train.knut"}},
		// the command fails before writing: the training data cannot be loaded (parse error in
		// a file it includes / missing include / missing training file)
		{Name: "infer-inplace-training-include-broken", Files: map[string]string{"train.knut": "include \"t2.knut\"\n" + train, "t2.knut": broken, "target.knut": target},
			Args: []string{"infer", "-t", "train.knut", "--inplace", "target.knut"}, Targets: []string{"target.knut", "train.knut", "t2.knut"}, MustFail: true},
		{Name: "infer-inplace-training-include-missing", Files: map[string]string{"train.knut": train + "include \"nope.knut\"\n", "target.knut": target},
			Args: []string{"infer", "-t", "train.knut", "--inplace", "target.knut"}, Targets: []string{"target.knut", "train.knut"}, MustFail: true},
		{Name: "infer-inplace-training-missing", Files: map[string]string{"target.knut": target},
			Args: []string{"infer", "-t", "nope.knut", "--inplace", "target.knut"}, Targets: []string{"target.knut"}, MustFail: true},
		{Name: "infer-inplace", Files: map[string]string{"train.knut": train, "target.knut": target}, Args: []string{"infer", "-t", "train.knut", "--inplace", "target.knut"}, Targets: []string{"target.knut", "train.knut"}},
	}
	_ = jr.Open
	return ss
}

func c18Run(e *core.Env) {
	dir := c18Dir(e)
	defer os.RemoveAll(dir)
	if _, err := exec.LookPath("strace"); err != nil {
		e.EngineError("strace not available: %v", err)
		return
	}
	errnos := []string{"ENOSPC", "EIO", "EACCES"}
	for _, sc := range c18Scenarios(e) {
		sc := sc
		c18Links, c18Loops = sc.Links, sc.Loops
		if err := c18Expected(dir, &sc); err != nil {
			e.EngineError("%s: %v", sc.Name, err)
			continue
		}
		// sanity of the scenario itself (fault-free run)
		if e.Take() {
			e.Count("evaluations")
			switch {
			case sc.Name == "format-unparseable" && len(sc.New) != 0:
				e.Violation("C18:unparseable-file-rewritten", "a file that does not parse was modified by format", c18Case{sc.Name, "none"}, nil)
			case sc.Name == "format-three-files-middle-broken" && (sc.New["a.knut"] == "" || sc.New["c.knut"] == "" || sc.New["b.knut"] != ""):
				e.Violation("C18:failure-on-one-file-affects-others", fmt.Sprintf("a.knut rewritten=%v, b.knut rewritten=%v, c.knut rewritten=%v (want true,false,true)", sc.New["a.knut"] != "", sc.New["b.knut"] != "", sc.New["c.knut"] != ""), c18Case{sc.Name, "none"}, nil)
			case sc.MustFail:
				code, _ := c18RunFault(dir, &sc, nil)
				if code == 0 || len(sc.New) != 0 {
					var changed []string
					for t := range sc.New {
						changed = append(changed, t)
					}
					e.Violation("C18:file-modified-although-command-failed-before-writing", fmt.Sprintf("exit %d, rewritten: %v", code, changed), c18Case{sc.Name, "none"}, nil)
				}
			case sc.Broken != "":
				// a failure on one file must not prevent the others, whatever the number of workers
				for _, procs := range []string{"1", "2", "3", "16"} {
					c18Procs = procs
					c18RunFault(dir, &sc, nil)
					var notRewritten []string
					for _, t := range sc.Targets {
						b, _ := os.ReadFile(filepath.Join(dir, t))
						if t == sc.Broken {
							if string(b) != sc.Files[t] {
								e.Violation("C18:unparseable-file-rewritten", t+" does not parse but was modified (GOMAXPROCS="+procs+")", c18Case{sc.Name, "none:p" + procs}, nil)
							}
							continue
						}
						if string(b) == sc.Files[t] {
							notRewritten = append(notRewritten, t)
						}
					}
					e.Count("evaluations")
					if len(notRewritten) > 0 {
						e.Violation("C18:failure-on-one-file-affects-others", fmt.Sprintf("GOMAXPROCS=%s: %s does not parse, and %v were not formatted although nothing is wrong with them", procs, sc.Broken, notRewritten), c18Case{sc.Name, "none:p" + procs}, nil)
						break
					}
				}
				c18Procs = "2"
			case strings.HasPrefix(sc.Name, "format-") && sc.Name != "format-unparseable" && len(sc.New) == 0, sc.Name == "infer-inplace" && sc.New["target.knut"] == "":
				e.EngineError("%s: the clean run does not rewrite the file", sc.Name)
			}
		}
		try := func(fault string, wrapper []string, nontrivial bool) {
			if !e.Take() {
				return
			}
			code, stderr := c18RunFault(dir, &sc, wrapper)
			e.Count("evaluations")
			if nontrivial {
				e.Count("distinct_nontrivial")
			}
			e.Distinct(sc.Name + fault)
			if e.CaseNo()%997 == 0 {
				e.Sample(map[string]any{"scenario": sc.Name, "fault": fault, "exit": code})
			}
			key, detail := c18Verify(dir, &sc)
			if key == "" && code == 0 && !strings.HasPrefix(fault, "kill") {
				// a run that reports success must have written everything
				if len(sc.Links) > 0 {
					// the command may replace the link itself: what the link name resolves to counts
					for n := range sc.Links {
						if b, _ := os.ReadFile(filepath.Join(dir, n)); string(b) != sc.newVia[n] {
							key, detail = "C18:success-reported-but-file-not-rewritten", n
						}
					}
				} else {
					for t, nw := range sc.New {
						if b, _ := os.ReadFile(filepath.Join(dir, t)); string(b) != nw && sc.Name != "format-three-files-middle-broken" {
							key, detail = "C18:success-reported-but-file-not-rewritten", t
						}
					}
				}
			}
			if key != "" {
				cs := c18Case{sc.Name, fault}
				var recheck func() bool
				if len(sc.Targets) == 1 || strings.HasSuffix(fault, ":p1") {
					recheck = func() bool { return c18Recheck(dir, &sc, wrapper, fault, key) }
				}
				// with several files and several OS threads the index of a syscall is not
				// reproducible from run to run; a corrupted file seen on the real binary is
				// evidence by itself, so such cases are reported without the 5x re-execution
				e.Violation(key+":"+strings.SplitN(fault, "=", 2)[0], detail+"\nscenario "+sc.Name+", fault "+fault+", exit "+fmt.Sprint(code)+"\nstderr: "+clip(stderr, 400), cs, recheck)
			}
		}
		// 1. write cut short at every byte offset
		maxLen := 0
		for _, nw := range sc.New {
			if len(nw) > maxLen {
				maxLen = len(nw)
			}
		}
		for _, f := range sc.Files {
			if len(f) > maxLen {
				maxLen = len(f)
			}
		}
		step := 1
		if maxLen > 4096 && !e.Thorough() {
			step = 97
		}
		for k := 0; k <= maxLen+1; k++ {
			if k%step != 0 && k != maxLen && k != maxLen-1 && k != maxLen+1 && k%4096 > 1 && k%4096 < 4095 && k%32768 > 1 {
				continue
			}
			try(fmt.Sprintf("fsize=%d", k), []string{"prlimit", fmt.Sprintf("--fsize=%d", k)}, k > 0 && k < maxLen)
		}
		e.SetBound("fsize_step_"+sc.Name, step)
		// record the syscall history
		ops, counts, err := c18Record(dir, &sc)
		if err != nil {
			e.EngineError("%s: recording failed: %v", sc.Name, err)
			continue
		}
		// 2. error injection at every file-system syscall
		var calls []string
		total := 0
		for c, n := range counts {
			calls = append(calls, c)
			total += n
		}
		sort.Strings(calls)
		procsList := []string{"2"}
		if len(sc.Targets) > 1 {
			// several files: also with a single worker, where one goroutine handles the
			// files one after the other (state carried from a failed file to the next)
			procsList = []string{"2", "1"}
		}
		for _, procs := range procsList {
			c18Procs = procs
			for _, c := range calls {
				for n := 1; n <= counts[c]+1; n++ {
					for _, en := range errnos {
						try(fmt.Sprintf("error=%s:%s:%d:p%s", c, en, n, procs), []string{"strace", "-f", "-o", "/dev/null", "-e", "trace=" + c, "-e", fmt.Sprintf("inject=%s:error=%s:when=%d", c, en, n)}, true)
					}
				}
			}
		}
		c18Procs = "2"
		// 3. process death at every file-system syscall boundary
		for n := 1; n <= total+2; n++ {
			try(fmt.Sprintf("kill=%d", n), []string{"strace", "-f", "-o", "/dev/null", "-e", "trace=" + c18Trace, "-e", fmt.Sprintf("inject=%s:signal=KILL:when=%d", c18Trace, n)}, true)
		}
		// 4. power loss: persistence model over the recorded history
		if e.Take() {
			states, key, detail := c18Model(dir, &sc, ops)
			e.Add("evaluations", states)
			e.Add("persistence_model_states", states)
			e.Add("recorded_fs_operations", len(ops))
			if len(ops) > 0 {
				e.Sample(map[string]any{"scenario": sc.Name, "recorded_history": opsSummary(ops)})
			}
			if key != "" {
				e.Violation(key, detail+"\nscenario "+sc.Name+"\nhistory: "+strings.Join(opsSummary(ops), "; "), c18Case{sc.Name, "power-loss"}, nil)
			}
		}
		if e.Expired() {
			return
		}
	}
}

func c18Recheck(dir string, sc *c18Scenario, wrapper []string, fault, key string) bool {
	if strings.HasSuffix(fault, ":p1") {
		c18Procs = "1"
	}
	c18RunFault(dir, sc, wrapper)
	c18Procs = "2"
	k, _ := c18Verify(dir, sc)
	return k == key
}

func opsSummary(ops []c18Op) []string {
	var res []string
	for _, o := range ops {
		s := o.Call + " " + filepath.Base(o.Path)
		if o.Dst != "" {
			s += " -> " + filepath.Base(o.Dst)
		}
		if o.Call == "write" {
			s += fmt.Sprintf(" (%d bytes)", len(o.Data))
		}
		if strings.Contains(o.Flag, "O_TRUNC") {
			s += " O_TRUNC"
		}
		res = append(res, s)
	}
	if len(res) > 40 {
		res = append(res[:40], "...")
	}
	return res
}

func c18Replay(e *core.Env, data json.RawMessage) (bool, string) {
	var cs c18Case
	if err := json.Unmarshal(data, &cs); err != nil {
		return false, err.Error()
	}
	dir := c18Dir(e)
	defer os.RemoveAll(dir)
	for _, sc := range c18Scenarios(e) {
		if sc.Name != cs.Scenario {
			continue
		}
		sc := sc
		c18Links, c18Loops = sc.Links, sc.Loops
		c18Expected(dir, &sc)
		if cs.Fault == "power-loss" {
			ops, _, _ := c18Record(dir, &sc)
			_, k, d := c18Model(dir, &sc, ops)
			return k != "", k + " " + d
		}
		var wrapper []string
		parts := strings.SplitN(cs.Fault, "=", 2)
		switch parts[0] {
		case "fsize":
			wrapper = []string{"prlimit", "--fsize=" + parts[1]}
		case "error":
			f := strings.Split(parts[1], ":")
			if len(f) > 3 {
				c18Procs = strings.TrimPrefix(f[3], "p")
			}
			wrapper = []string{"strace", "-f", "-o", "/dev/null", "-e", "trace=" + f[0], "-e", fmt.Sprintf("inject=%s:error=%s:when=%s", f[0], f[1], f[2])}
		case "kill":
			wrapper = []string{"strace", "-f", "-o", "/dev/null", "-e", "trace=" + c18Trace, "-e", fmt.Sprintf("inject=%s:signal=KILL:when=%s", c18Trace, parts[1])}
		default:
			return false, "fault-free scenario property; re-run the check"
		}
		code, stderr := c18RunFault(dir, &sc, wrapper)
		k, d := c18Verify(dir, &sc)
		return k != "", fmt.Sprintf("%s %s (exit %d, stderr %s)", k, d, code, clip(stderr, 300))
	}
	return false, "scenario not found"
}

func init() {
	core.Register(&core.Check{
		ID: "C18", Level: "fault_enumeration", Run: c18Run, Replay: c18Replay,
		Added:       "six files with the first one broken under GOMAXPROCS 1, 2, 3, 16 (every other file must be rewritten); infer --inplace with training data that cannot be loaded (target bit-identical, exit != 0)",
		QuickBudget: 100 * time.Second, ThoroughBudget: 14 * time.Minute,
		Rule: "scenarios: format on a tiny / 1 KiB / 40 KiB file, on an unparseable file, on three files of which the middle one is unparseable, and infer --inplace, all on the real uninstrumented binary; faults: RLIMIT_FSIZE = k for every byte offset k of the new content (40 KiB: every 97th offset plus page/buffer boundaries in the quick tier, every offset in the thorough tier), every file-system syscall index x {ENOSPC, EIO, EACCES}, SIGKILL at every file-system syscall index, and an explicit-state power-loss model over the recorded syscall trace (every prefix x every subset of unsynced writes); " +
			"oracle: every target file holds its complete old or complete new bytes; distinct = distinct (scenario, fault); non-trivial = faults that can fire inside the write path",
		Assumptions: []string{"the unwritable-directory clause is exercised through injected EACCES on the temporary file's openat (the sandbox runs as root, so directory permission bits do not bind)",
			"power loss model: metadata operations persist in order; each data write since the file's last fsync may be lost independently (ALICE-style)",
			"`fetch` needs the network and is not exercised; it uses the same atomic.WriteFile call"},
	})
}
