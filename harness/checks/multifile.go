package checks

import (
	"encoding/json"
	"fmt"
	"strings"

	"kmc/core"
	"kmc/jr"
)

// Multi-file schedule part shared by the report-level checks (C02, C04, C12): the
// property of a single-file journal, established against the reference model by the
// check's own oracle, must carry over to the same directives spread over three files
// under EVERY schedule of the concurrent loader within the deviation bound (the files
// are parsed and converted by separate goroutines which intern account and commodity
// names in shared registries). The expected outcome is the single-file one.

type multiFileCase struct {
	MultiFile bool
	Files     map[string]string
	Args      []string
	Want      string
	Picks     []int
}

// multiFileSchedules: root/a/b are the directives of the three files (a and b are
// included by root at its top); single is the outcome of the command on the
// concatenated single-file journal (already validated by the caller).
func multiFileSchedules(e *core.Env, drv *core.Driver, prop, name string, root, a, b []jr.Dir, args []string) {
	single := jr.RenderAll(root) + jr.RenderAll(a) + jr.RenderAll(b)
	drv.Files(map[string]string{"root.knut": single})
	want := drv.Run(nil, args...)
	if ab := want.Abnormal(); ab != "" {
		e.EngineError("multi-file scenario %s: single-file run abnormal: %s", name, ab)
		return
	}
	files := map[string]string{
		"root.knut": "include \"a.knut\"\ninclude \"b.knut\"\n" + jr.RenderAll(root),
		"a.knut":    jr.RenderAll(a), "b.knut": jr.RenderAll(b),
	}
	drv.Files(files)
	bounds := core.Pick(e, core.Bounds{Preempt: 1, Free: 2, Total: 2}, core.Bounds{Preempt: 2, Free: 2, Total: 3})
	x := core.Explorer{Bounds: bounds, NoMap: true, Cache: true, MaxExec: core.Pick(e, 60000, 600000), Stop: e.Expired}
	var key, detail string
	var picks []int
	outcomes := map[string]bool{}
	st := x.Explore(func(c *core.Ctx) {
		o := drv.Run(c, args...)
		if c.Pruned {
			return
		}
		outcomes[o.Key()] = true
		if key != "" {
			return
		}
		switch {
		case o.Abnormal() != "":
			key, detail, picks = prop+":abnormal:multi-file", o.Abnormal(), c.Picks()
		case o.Exit != want.Exit || o.Stdout != want.Stdout:
			key, detail, picks = prop+":schedule-dependent:multi-file", fmt.Sprintf("exit %d, single-file journal exit %d\nthis schedule:\n%s%s\nsingle file:\n%s%s", o.Exit, want.Exit, o.Stdout, o.Stderr, want.Stdout, want.Stderr), c.Picks()
		}
	}, func(c *core.Ctx) bool { return key == "" })
	e.AddStats(st)
	e.Add("evaluations", st.Executions)
	e.Add("schedules_explored_multi_file", st.Executions-st.Pruned)
	e.SetBound("multi_file_deviations_"+name, st.BoundCompleted)
	e.Note("multi-file %s: %d schedules (%d pruned by state cache), %d distinct outcomes, deviation bound completed %d", name, st.Executions, st.Pruned, len(outcomes), st.BoundCompleted)
	if key != "" {
		cs := multiFileCase{MultiFile: true, Files: files, Args: args, Want: want.Key(), Picks: picks}
		e.Violation(key, detail+"\ncommand: knut "+strings.Join(args, " ")+"\nfiles: "+clip(fmt.Sprintf("%q", files), 1500), cs, func() bool {
			drv.Files(files)
			o := drv.Run(core.NewReplayCtxNoMap(picks, false), args...)
			return o.Abnormal() != "" || o.Key() != want.Key()
		})
	}
}

// replayMultiFile handles replay artefacts written by multiFileSchedules.
func replayMultiFile(e *core.Env, data json.RawMessage) (handled, violated bool, detail string) {
	var cs multiFileCase
	if err := json.Unmarshal(data, &cs); err != nil || !cs.MultiFile {
		return false, false, ""
	}
	drv := e.Driver()
	drv.Files(cs.Files)
	o := drv.Run(core.NewReplayCtxNoMap(cs.Picks, false), cs.Args...)
	return true, o.Abnormal() != "" || o.Key() != cs.Want, o.Stdout + o.Stderr + o.Abnormal()
}

// multiFileJournal: both included files use USD and EUR for the first time, the root
// file declares the prices; an assertion in b.knut depends on a booking in a.knut.
func multiFileJournal() (root, a, b []jr.Dir) {
	root = append(opensPrefix(), jr.P("2020-01-02", "USD", "0.9", "CHF"), jr.P("2020-01-02", "EUR", "1.1", "CHF"),
		jr.T("2020-01-30", "chf", jr.B(accOpening, accChecking, "10", "CHF")))
	a = []jr.Dir{
		// the same pair quoted on one day in both included files: the later one in source
		// order (b.knut) is the price of the day, whichever file is loaded first
		jr.P("2020-01-31", "USD", "0.95", "CHF"),
		jr.T("2020-01-30", "usd a", jr.B(accOpening, accChecking, "100", "USD")),
		jr.T("2020-01-31", "eur a", jr.B(accOpening, accSavings, "5", "EUR")),
	}
	b = []jr.Dir{
		jr.P("2020-01-31", "USD", "0.97", "CHF"),
		jr.T("2020-01-30", "usd b", jr.B(accOpening, accChecking, "50", "USD")),
		jr.T("2020-01-31", "eur b", jr.B(accOpening, accSavings, "7", "EUR")),
		jr.A("2020-02-01", jr.Bal{Acc: accChecking, Qty: "150", Com: "USD"}, jr.Bal{Acc: accSavings, Qty: "12", Com: "EUR"}),
	}
	return
}

// diamondSchedules: a file that is included from two files. Under every loader schedule
// within the deviation bound the command must give the outcome of the default schedule,
// and every census string must occur in its output exactly `times` times (a file that is
// loaded twice shows up as duplicated output, or as different training data).
func diamondSchedules(e *core.Env, drv *core.Driver, prop, name string, files map[string]string, args []string, census []string, times int) {
	drv.Files(files)
	want := drv.Run(nil, args...)
	if ab := want.Abnormal(); ab != "" || want.Exit != 0 {
		e.Violation(prop+":abnormal:diamond", ab+want.Stderr, multiFileCase{MultiFile: true, Files: files, Args: args}, nil)
		return
	}
	bounds := core.Pick(e, core.Bounds{Preempt: 1, Free: 2, Total: 2}, core.Bounds{Preempt: 2, Free: 2, Total: 3})
	x := core.Explorer{Bounds: bounds, NoMap: true, Cache: true, MaxExec: core.Pick(e, 60000, 600000), Stop: e.Expired}
	var key, detail string
	var picks []int
	st := x.Explore(func(c *core.Ctx) {
		o := drv.Run(c, args...)
		if c.Pruned || key != "" {
			return
		}
		switch {
		case o.Abnormal() != "":
			key, detail, picks = prop+":abnormal:diamond", o.Abnormal(), c.Picks()
		case o.Exit != want.Exit || o.Stdout != want.Stdout:
			key, detail, picks = prop+":schedule-dependent:diamond", fmt.Sprintf("this schedule:\n%s%s\ndefault schedule:\n%s", o.Stdout, o.Stderr, want.Stdout), c.Picks()
		default:
			for _, s := range census {
				if n := strings.Count(o.Stdout, s); n != times {
					key, detail, picks = prop+":census:diamond", fmt.Sprintf("%s occurs %d times in the output, want %d\n%s", s, n, times, o.Stdout), c.Picks()
					break
				}
			}
		}
	}, func(c *core.Ctx) bool { return key == "" })
	e.AddStats(st)
	e.Add("evaluations", st.Executions)
	e.Add("schedules_explored_diamond", st.Executions-st.Pruned)
	e.SetBound("diamond_deviations_"+name, st.BoundCompleted)
	e.Note("diamond %s: %d schedules (%d pruned by state cache), deviation bound completed %d", name, st.Executions, st.Pruned, st.BoundCompleted)
	if key != "" {
		cs := multiFileCase{MultiFile: true, Files: files, Args: args, Want: want.Key(), Picks: picks}
		e.Violation(key, detail+"\ncommand: knut "+strings.Join(args, " "), cs, func() bool {
			drv.Files(files)
			o := drv.Run(core.NewReplayCtxNoMap(picks, false), args...)
			return o.Abnormal() != "" || o.Key() != want.Key()
		})
	}
}
