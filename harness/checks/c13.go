package checks

import (
	"encoding/base64"
	"encoding/json"
	"fmt"
	"math/big"
	"regexp"
	"sort"
	"strings"
	"time"
	"unicode/utf8"

	"kmc/core"

	"github.com/sboehler/knut/lib/syntax/directives"
)

// C13 — importers turn every statement row into a valid, faithful journal entry.
//
// For each of the 11 importers a small statement grammar (header + rows) is enumerated
// exhaustively: every sequence of <= N rows over a per-importer row alphabet (the
// product of dates x booking kinds x amounts x currencies x free texts that the
// format carries). Each statement is fed to the real importer in-process; the oracle
//   1. demands normal termination and exit 0,
//   2. parses stdout (OS-level capture) with knut's own parser,
//   3. prefixes `open` directives for every account used, runs `check` and `print`
//      and demands that print reproduces "<opens>\n<importer output>" byte for byte
//      (journal.Print emits the opens of 1999-01-01 as one block followed by a blank
//      line and then the remaining days exactly as the importer printed them, because
//      importer and print share the printer and padding depends on transactions only),
//   4. reads the parsed output back and compares the multiset of
//      {transaction (date, net effect on the import account per commodity),
//       balance assertion, price} with the multiset the grammar expects.
//
// Expectations encode what an importer documents/does where one row deliberately maps
// to something else than one transaction: wise cross-currency rows yield a conversion
// transaction plus (IN/OUT) a payment transaction; a swissquote forex pair (two lines)
// is one grammar row and yields one transaction; cancelled / pending / Saldovortrag
// rows yield nothing; viac rows yield prices.

const (
	c13D1       = "2020-01-31"
	c13D2       = "2020-03-02"
	c13OpenDate = "1999-01-01"
)

// A dividend row whose Anzahl is the number of shares and whose Stückpreis is the
// dividend per share (Nettobetrag = Anzahl x Stückpreis - Kosten). The golden input only
// shows Anzahl 1.0; this kind is reported under its own key (dividende-per-share).
const c13SwissquotePerShareDividend = false

var (
	// `a #tag b` sorts after `a "quoted" b` but before `a 'quoted' b`
	// the two long texts consist of two-byte characters at even and at odd byte offsets:
	// whatever byte length an importer might cut a text to, one of them is cut inside a
	// character
	c13TextsAll    = []string{"abc", `a "quoted" b`, "semi;colon", "comma, x", "Zürich — ☕", "", "a #tag b", strings.Repeat("ü", 200), "a" + strings.Repeat("ü", 200)}
	c13TextsLatin1 = []string{"abc", `a "quoted" b`, "semi;colon", "comma, x", "Zürich « é ¶", "", "a #tag b", strings.Repeat("ü", 200), "a" + strings.Repeat("ü", 200)}
)

func c13TextClass(t string) (string, int) {
	switch {
	case strings.Contains(t, `"`):
		return "quote-in-text", 5
	case strings.Contains(t, ";"):
		return "semicolon-in-text", 4
	case strings.Contains(t, ","):
		return "comma-in-text", 3
	case t == "":
		return "empty-text", 1
	case !c13ASCII(t):
		return "unicode-text", 2
	}
	return "plain", 0
}

func c13ASCII(s string) bool {
	for i := 0; i < len(s); i++ {
		if s[i] >= 0x80 {
			return false
		}
	}
	return true
}

// ---------------------------------------------------------------------------------
// rows, cases

type c13Row struct {
	Kind string `json:"k"`
	Date string `json:"d"`
	Amt  string `json:"a,omitempty"`
	Cur  string `json:"c,omitempty"`
	Text string `json:"t"`
	NT   bool   `json:"nt,omitempty"` // the kind carries no free text
}

type c13Case struct {
	Imp        string     `json:"imp"`
	Var        string     `json:"var,omitempty"`
	Args       []string   `json:"args"` // complete command line
	File       string     `json:"file"`
	Account    string     `json:"account"`
	Content    string     `json:"content,omitempty"` // readable copy when valid UTF-8
	ContentB64 string     `json:"content_b64"`
	Rows       []c13Row   `json:"rows"`
	RowWants   [][]string `json:"row_wants"`
	StmtWants  []string   `json:"stmt_wants"`
	// MoreFiles: further statement files of the same invocation (importers that take
	// several files): the rows are spread one per file
	MoreFiles map[string]string `json:"more_files,omitempty"`
}

func (cs *c13Case) content() string {
	b, _ := base64.StdEncoding.DecodeString(cs.ContentB64)
	return string(b)
}

func (cs *c13Case) textClass() string {
	best, bp := "plain", 0
	for _, r := range cs.Rows {
		if r.NT {
			continue
		}
		if c, p := c13TextClass(r.Text); p > bp {
			best, bp = c, p
		}
	}
	return best
}

type c13Finding struct{ Key, Detail string }

// ---------------------------------------------------------------------------------
// arithmetic and canonical forms

func c13Rat(s string) *big.Rat {
	s = strings.NewReplacer("'", "", ",", "", " ", "", "\u00a0", "").Replace(s)
	r, ok := new(big.Rat).SetString(s)
	if !ok {
		panic("c13: bad number " + s)
	}
	return r
}

func c13Fmt(r *big.Rat) string {
	s := r.FloatString(10)
	s = strings.TrimRight(s, "0")
	s = strings.TrimSuffix(s, ".")
	if s == "-0" {
		s = "0"
	}
	return s
}

// c13Eff sums (commodity, signed amount) pairs.
func c13Eff(pairs ...string) map[string]*big.Rat {
	m := map[string]*big.Rat{}
	for i := 0; i+1 < len(pairs); i += 2 {
		if m[pairs[i]] == nil {
			m[pairs[i]] = new(big.Rat)
		}
		m[pairs[i]].Add(m[pairs[i]], c13Rat(pairs[i+1]))
	}
	return m
}

// c13T is the canonical form of a transaction: date and non-zero net effect on the
// import account per commodity.
func c13T(date string, eff map[string]*big.Rat) string {
	var ks []string
	for k, v := range eff {
		if v.Sign() != 0 {
			ks = append(ks, k)
		}
	}
	sort.Strings(ks)
	s := "T|" + date
	for _, k := range ks {
		s += "|" + k + "=" + c13Fmt(eff[k])
	}
	return s
}

func c13B(date, acct, com string, q *big.Rat) string {
	return "B|" + date + "|" + acct + "|" + com + "|" + c13Fmt(q)
}

func c13P(date, com string, p *big.Rat, target string) string {
	return "P|" + date + "|" + com + "|" + c13Fmt(p) + "|" + target
}

func c13Neg(s string) string { return "-" + s }

func c13Date(iso, layout string) string {
	t, err := time.Parse("2006-01-02", iso)
	if err != nil {
		panic(err)
	}
	return t.Format(layout)
}

func c13Other(cur string) string {
	if cur == "CHF" {
		return "EUR"
	}
	return "CHF"
}

// c13Q quotes a CSV field as RFC 4180 requires (every Go csv.Reader configuration,
// lazy or strict, reads it back as the original text).
func c13Q(s string, comma string) string {
	if s == "" {
		return ""
	}
	if strings.Contains(s, comma) || strings.ContainsAny(s, "\"\n\r") || s[0] == ' ' {
		return c13QQ(s)
	}
	return s
}

func c13QQ(s string) string { return `"` + strings.ReplaceAll(s, `"`, `""`) + `"` }

func c13Plain(a string) string  { return strings.ReplaceAll(a, "'", "") }
func c13Commas(a string) string { return strings.ReplaceAll(a, "'", ",") }

func c13Latin1(s string) string {
	b := make([]byte, 0, len(s))
	for _, r := range s {
		if r > 255 {
			panic("c13: not Latin-1: " + s)
		}
		b = append(b, byte(r))
	}
	return string(b)
}

// ---------------------------------------------------------------------------------
// alphabets

type c13Dims struct {
	Dates []string
	Amts  []string
	Curs  []string
	Texts []string // texts for the main free-text kinds
	Few   []string // texts for secondary free-text kinds
}

const (
	c13TNone = iota
	c13TAll
	c13TFew
)

type c13KS struct {
	Kind  string
	T     int
	NoAmt bool
}

func c13Alpha(d c13Dims, useCur bool, specs []c13KS) []c13Row {
	var rows []c13Row
	for _, s := range specs {
		texts, nt := []string{""}, true
		switch s.T {
		case c13TAll:
			texts, nt = d.Texts, false
		case c13TFew:
			texts, nt = d.Few, false
		}
		curs := []string{""}
		if useCur {
			curs = d.Curs
			if s.NoAmt {
				curs = d.Curs[:1]
			}
		}
		amts := d.Amts
		if s.NoAmt {
			amts = d.Amts[:1]
		}
		for _, t := range texts {
			for _, dt := range d.Dates {
				for _, c := range curs {
					for _, a := range amts {
						rows = append(rows, c13Row{Kind: s.Kind, Date: dt, Amt: a, Cur: c, Text: t, NT: nt})
					}
				}
			}
		}
	}
	return rows
}

type c13Importer struct {
	Name    string
	Account string
	File    string
	Latin1  bool
	Mono    int // +1: rows in chronological order, -1: newest first, 0: any order
	Extra   int // additional rows beyond the tier's bound (tiny alphabets)
	Curs3   int // number of currencies in the reduced (3-row) alphabet
	Vars    []string
	Args    func(v string) []string
	Alpha   func(d c13Dims) []c13Row
	Render  func(v string, rows []c13Row) (content string, rowWants [][]string, stmtWants []string)
}

// --- ch.cumulus -------------------------------------------------------------------

func c13Cumulus() *c13Importer {
	acct := "Liabilities:Card"
	return &c13Importer{
		Name: "ch.cumulus", Account: acct, File: "s.csv", Vars: []string{""},
		Args: func(string) []string { return []string{"--account", acct} },
		Alpha: func(d c13Dims) []c13Row {
			return c13Alpha(d, false, []c13KS{{Kind: "belastung", T: c13TAll}, {Kind: "gutschrift", T: c13TFew}, {Kind: "belastung-fx", T: c13TFew},
				{Kind: "rounding-gutschrift"}, {Kind: "rounding-belastung"}})
		},
		Render: func(v string, rows []c13Row) (string, [][]string, []string) {
			var b strings.Builder
			var wants [][]string
			b.WriteString("Einkaufs-Datum,Verbucht am,Beschreibung,Gutschrift CHF,Belastung CHF\n")
			for _, r := range rows {
				d := c13Date(r.Date, "02.01.2006")
				t := c13Q(r.Text, ",")
				sign := "-"
				switch r.Kind {
				case "belastung":
					fmt.Fprintf(&b, "%s,%s,%s,,%s\n", d, d, t, r.Amt)
				case "gutschrift":
					fmt.Fprintf(&b, "%s,%s,%s,%s,\n", d, d, t, r.Amt)
					sign = ""
				case "belastung-fx":
					// a booking followed by an FX comment line, which is appended to the
					// description and yields no transaction of its own
					fmt.Fprintf(&b, "%s,%s,Desc,,%s\n\"\",,%s,,\n", d, d, r.Amt, c13QQ(r.Text))
				case "rounding-gutschrift":
					fmt.Fprintf(&b, "Verbucht am,Beschreibung,Gutschrift CHF,Belastung CHF\n%s,Rundungskorrektur,%s,\n", d, r.Amt)
					sign = ""
				case "rounding-belastung":
					fmt.Fprintf(&b, "Verbucht am,Beschreibung,Gutschrift CHF,Belastung CHF\n%s,Rundungskorrektur,,%s\n", d, r.Amt)
				}
				wants = append(wants, []string{c13T(r.Date, c13Eff("CHF", sign+r.Amt))})
			}
			return b.String(), wants, nil
		},
	}
}

// --- ch.postfinance ---------------------------------------------------------------

func c13Postfinance() *c13Importer {
	acct := "Assets:Bank"
	return &c13Importer{
		Name: "ch.postfinance", Account: acct, File: "s.csv", Vars: []string{"CHF", "EUR"},
		Args: func(string) []string { return []string{"--account", acct} },
		Alpha: func(d c13Dims) []c13Row {
			return c13Alpha(d, false, []c13KS{{Kind: "gutschrift", T: c13TAll}, {Kind: "lastschrift", T: c13TAll}, {Kind: "lastschrift-label", T: c13TFew}, {Kind: "lastschrift-7fields"}})
		},
		Render: func(v string, rows []c13Row) (string, [][]string, []string) {
			var b strings.Builder
			var wants [][]string
			b.WriteString("\ufeffBuchungsart:;=\"Alle Buchungen\"\nKonto:;=\"CH4609000000877991229\"\nWährung:;=\"" + v + "\"\n\n")
			fmt.Fprintf(&b, "Buchungsdatum;Avisierungstext;Gutschrift in %s;Lastschrift in %s;Label;Kategorie;Valuta;Saldo in %s\n\n", v, v, v)
			for _, r := range rows {
				d := c13Date(r.Date, "02.01.2006")
				t := c13Q(r.Text, ";")
				sign := "-"
				switch r.Kind {
				case "gutschrift":
					fmt.Fprintf(&b, "%s;%s;%s;;;;%s;796.44\n", d, t, r.Amt, d)
					sign = ""
				case "lastschrift":
					fmt.Fprintf(&b, "%s;%s;;-%s;;;%s;796.44\n", d, t, r.Amt, d)
				case "lastschrift-label":
					fmt.Fprintf(&b, "%s;desc1 ;;-%s;%s;bar;%s;\n", d, r.Amt, t, d)
				case "lastschrift-7fields":
					fmt.Fprintf(&b, "%s;desc3;;-%s;;;%s\n", d, r.Amt, d)
				}
				wants = append(wants, []string{c13T(r.Date, c13Eff(v, sign+r.Amt))})
			}
			b.WriteString("\nDisclaimer:\nDies ist kein durch PostFinance AG erstelltes Dokument. PostFinance AG ist nicht verantwortlich für den Inhalt.\n")
			return b.String(), wants, nil
		},
	}
}

// --- ch.supercard -----------------------------------------------------------------

func c13Supercard() *c13Importer {
	acct := "Liabilities:Card"
	return &c13Importer{
		Name: "ch.supercard", Account: acct, File: "s.csv", Latin1: true, Vars: []string{""}, Curs3: 2,
		Args: func(string) []string { return []string{"--account", acct} },
		Alpha: func(d c13Dims) []c13Row {
			return c13Alpha(d, true, []c13KS{{Kind: "belastung", T: c13TAll}, {Kind: "gutschrift", T: c13TFew}, {Kind: "belastung-fx", T: c13TFew}, {Kind: "saldovortrag", NoAmt: true}})
		},
		Render: func(v string, rows []c13Row) (string, [][]string, []string) {
			var b strings.Builder
			var wants [][]string
			b.WriteString("sep=;\nKontonummer;Kartennummer;Konto-/Karteninhaber;Einkaufsdatum;Buchungstext;Branche;Betrag;Originalwährung;Kurs;Währung;Belastung;Gutschrift;Buchung\n")
			for _, r := range rows {
				d := c13Date(r.Date, "02.01.2006")
				a := c13Plain(r.Amt)
				t := c13Q(r.Text, ";")
				switch r.Kind {
				case "belastung":
					fmt.Fprintf(&b, "1425 0000 0000;1111 2222 3333 4444;OWNER;%s;%s;Tankstelle;%s;%s; ;%s;%s; ;%s\n", d, t, a, r.Cur, r.Cur, a, d)
					wants = append(wants, []string{c13T(r.Date, c13Eff(r.Cur, "-"+a))})
				case "belastung-fx":
					// purchase in a foreign currency: Betrag/Originalwährung carry the original
					// amount, Belastung is billed in Währung (the row's currency)
					orig := "USD"
					if r.Cur == "USD" {
						orig = "GBP"
					}
					fmt.Fprintf(&b, "1425 0000 0000;1111 2222 3333 4444;OWNER;%s;%s;Hotel;77.70;%s;0.9;%s;%s; ;%s\n", d, t, orig, r.Cur, a, d)
					wants = append(wants, []string{c13T(r.Date, c13Eff(r.Cur, "-"+a))})
				case "gutschrift":
					fmt.Fprintf(&b, "1425 0000 0000;1111 2222 3333 4444;OWNER;%s;%s;Warenhaus;%s;%s; ;%s; ;%s;%s\n", d, t, a, r.Cur, r.Cur, a, d)
					wants = append(wants, []string{c13T(r.Date, c13Eff(r.Cur, a))})
				case "saldovortrag":
					// balance carried forward: not a booking
					fmt.Fprintf(&b, "1425 0000 0000; ; ;%s;Saldovortrag; ; ; ; ;CHF;100.00; ;%s\n", d, d)
					wants = append(wants, nil)
				}
			}
			return c13Latin1(b.String()), wants, nil
		},
	}
}

// --- ch.swisscard -----------------------------------------------------------------

func c13Swisscard() *c13Importer {
	acct := "Liabilities:Card"
	return &c13Importer{
		Name: "ch.swisscard", Account: acct, File: "s.csv", Vars: []string{""},
		Args: func(string) []string { return []string{"--account", acct} },
		Alpha: func(d c13Dims) []c13Row {
			return c13Alpha(d, false, []c13KS{{Kind: "debit", T: c13TAll}, {Kind: "credit", T: c13TFew}, {Kind: "debit-city", T: c13TFew}})
		},
		Render: func(v string, rows []c13Row) (string, [][]string, []string) {
			var b strings.Builder
			var wants [][]string
			b.WriteString("Transaction Date, Posting Date, Card Number ,Billing Amount, Description, Merchant City , Merchant State , Merchant Zip , Reference Number , Debit/Credit Flag , SICMCC Code\n")
			for _, r := range rows {
				d := c13Date(r.Date, "02.01.2006")
				t := c13QQ(r.Text)
				switch r.Kind {
				case "debit":
					fmt.Fprintf(&b, "%s,%s,1234,CHF%s,%s,\"\",,, \"42\",D,5411\n", d, d, r.Amt, t)
					wants = append(wants, []string{c13T(r.Date, c13Eff("CHF", "-"+r.Amt))})
				case "debit-city":
					fmt.Fprintf(&b, "%s,%s,1234,CHF%s,\"desc1\",%s,CHE,1111, \"42\",D,5411\n", d, d, r.Amt, t)
					wants = append(wants, []string{c13T(r.Date, c13Eff("CHF", "-"+r.Amt))})
				case "credit":
					fmt.Fprintf(&b, "%s,%s,1234,-CHF%s,%s,\"\",,, \"43\",C,\n", d, d, r.Amt, t)
					wants = append(wants, []string{c13T(r.Date, c13Eff("CHF", r.Amt))})
				}
			}
			return b.String(), wants, nil
		},
	}
}

// --- ch.swisscard2 ----------------------------------------------------------------

func c13Swisscard2() *c13Importer {
	acct := "Liabilities:Card"
	return &c13Importer{
		Name: "ch.swisscard2", Account: acct, File: "s.csv", Vars: []string{""}, Curs3: 2,
		Args: func(string) []string { return []string{"--account", acct} },
		Alpha: func(d c13Dims) []c13Row {
			return c13Alpha(d, true, []c13KS{{Kind: "belastung", T: c13TAll}, {Kind: "gutschrift", T: c13TFew}})
		},
		Render: func(v string, rows []c13Row) (string, [][]string, []string) {
			var b strings.Builder
			var wants [][]string
			b.WriteString("Transaktionsdatum,Beschreibung,Händler,Kartennummer,Währung,Betrag,Fremdwährung,Betrag in Fremdwährung,Debit/Kredit,Status,Händlerkategorie,Registrierte Kategorie\n")
			for _, r := range rows {
				d := c13Date(r.Date, "02.01.2006")
				a := c13Plain(r.Amt)
				switch r.Kind {
				case "belastung":
					fmt.Fprintf(&b, "\"%s\",%s,\"aa\",\"11\",\"%s\",\"%s\",\"\",\"\",\"Belastung\",\"Gebucht\",\"Familie & Haushalt\",\"FAMILY CLOTHING STORES\"\n", d, c13QQ(r.Text), r.Cur, a)
					wants = append(wants, []string{c13T(r.Date, c13Eff(r.Cur, "-"+a))})
				case "gutschrift":
					// only (Gutschrift, negative amount) is generated; the importer books the
					// signed amount
					fmt.Fprintf(&b, "\"%s\",%s,\"aa\",\"11\",\"%s\",\"-%s\",\"\",\"\",\"Gutschrift\",\"Gebucht\",\"Auto\",\"AUTOMOBILE TRUCK DEALERS, SALES, SERVICE\"\n", d, c13QQ(r.Text), r.Cur, a)
					wants = append(wants, []string{c13T(r.Date, c13Eff(r.Cur, a))})
				}
			}
			return b.String(), wants, nil
		},
	}
}

// --- revolut ----------------------------------------------------------------------

func c13Revolut() *c13Importer {
	acct := "Assets:Bank"
	const nb = "\u00a0 "
	return &c13Importer{
		Name: "revolut", Account: acct, File: "s.csv", Mono: -1, Vars: []string{"EUR", "CHF"},
		Args: func(string) []string { return []string{"--account", acct} },
		Alpha: func(d c13Dims) []c13Row {
			return c13Alpha(d, false, []c13KS{{Kind: "paid-out", T: c13TAll}, {Kind: "paid-in", T: c13TFew}, {Kind: "sold"}, {Kind: "bought"},
				// card payment / refund in a foreign currency: the statement carries the foreign
				// amount in the exchange column, but the row is an ordinary booking
				{Kind: "paid-out-foreign", T: c13TFew}, {Kind: "paid-in-foreign"}})
		},
		Render: func(cur string, rows []c13Row) (string, [][]string, []string) {
			oth := c13Other(cur)
			// rows are listed newest first; the balance column is the balance after the row
			signed := make([]*big.Rat, len(rows))
			for i, r := range rows {
				signed[i] = c13Rat(r.Amt)
				if r.Kind == "paid-out" || r.Kind == "sold" || r.Kind == "paid-out-foreign" {
					signed[i].Neg(signed[i])
				}
			}
			bal := make([]*big.Rat, len(rows))
			run := new(big.Rat)
			for i := len(rows) - 1; i >= 0; i-- {
				run.Add(run, signed[i])
				bal[i] = new(big.Rat).Set(run)
			}
			var b strings.Builder
			var wants [][]string
			var sw []string
			fmt.Fprintf(&b, "Completed Date;Reference;Paid Out (%s);Paid In (%s);Exchange Out;Exchange In; Balance (%s);Exchange Rate;Category\n", cur, cur, cur)
			for i, r := range rows {
				d := c13Date(r.Date, "2 Jan 2006")
				bs := nb + bal[i].FloatString(2)
				t := c13Q(r.Text, ";")
				switch r.Kind {
				case "paid-out":
					fmt.Fprintf(&b, "%s;%s;%s%s;;;;%s;%s;Transport\n", d, t, nb, r.Amt, bs, nb)
					wants = append(wants, []string{c13T(r.Date, c13Eff(cur, "-"+r.Amt))})
				case "paid-in":
					fmt.Fprintf(&b, "%s;%s;;%s%s;;;%s;%s;General\n", d, t, nb, r.Amt, bs, nb)
					wants = append(wants, []string{c13T(r.Date, c13Eff(cur, r.Amt))})
				case "paid-out-foreign":
					fmt.Fprintf(&b, "%s;%s;%s%s;;%s %s5.86;;%s;FX-rate € 1 = USD 1.1445;Transport\n", d, t, nb, r.Amt, oth, nb, bs)
					wants = append(wants, []string{c13T(r.Date, c13Eff(cur, "-"+r.Amt))})
				case "paid-in-foreign":
					fmt.Fprintf(&b, "%s;Refund;;%s%s;;%s %s2.29;%s;FX-rate € 1 = USD 1.1445;General\n", d, nb, r.Amt, oth, nb, bs)
					wants = append(wants, []string{c13T(r.Date, c13Eff(cur, r.Amt))})
				case "sold":
					fmt.Fprintf(&b, "%s;Sold %s to %s;%s%s;;%s %s199.95;;%s;FX-rate € 1 = CHF 1.0809;General\n", d, cur, oth, nb, r.Amt, oth, nb, bs)
					wants = append(wants, []string{c13T(r.Date, c13Eff(cur, "-"+r.Amt, oth, "199.95"))})
				case "bought":
					fmt.Fprintf(&b, "%s;Bought %s from %s;;%s%s;;%s %s199.95;%s;FX-rate € 1 = CHF 1.0777;General\n", d, cur, oth, nb, r.Amt, oth, nb, bs)
					wants = append(wants, []string{c13T(r.Date, c13Eff(cur, r.Amt, oth, "-199.95"))})
				}
				if i == 0 || rows[i-1].Date != r.Date {
					sw = append(sw, c13B(r.Date, acct, cur, bal[i]))
				}
			}
			return b.String(), wants, sw
		},
	}
}

// --- revolut2 ---------------------------------------------------------------------

func c13Revolut2() *c13Importer {
	acct := "Assets:Bank"
	return &c13Importer{
		Name: "revolut2", Account: acct, File: "s.csv", Mono: +1, Vars: []string{""}, Curs3: 2,
		Args: func(string) []string { return []string{"--account", acct, "--fee", "Expenses:Fees"} },
		Alpha: func(d c13Dims) []c13Row {
			return c13Alpha(d, true, []c13KS{{Kind: "payment", T: c13TAll}, {Kind: "payment-fee", T: c13TFew}, {Kind: "topup", T: c13TFew}, {Kind: "verification", NoAmt: true}, {Kind: "pending", NoAmt: true}})
		},
		Render: func(v string, rows []c13Row) (string, [][]string, []string) {
			var b strings.Builder
			var wants [][]string
			run := map[string]*big.Rat{}
			last := map[string]string{}
			var order []string
			b.WriteString("Type,Product,Started Date,Completed Date,Description,Amount,Fee,Currency,State,Balance\n")
			for _, r := range rows {
				a := c13Plain(r.Amt)
				t := c13Q(r.Text, ",")
				if run[r.Cur] == nil {
					run[r.Cur] = new(big.Rat)
				}
				var eff map[string]*big.Rat
				typ, amt, fee := "CARD_PAYMENT", "-"+a, "0.00"
				switch r.Kind {
				case "payment":
					eff = c13Eff(r.Cur, "-"+a)
				case "payment-fee":
					fee = "1.00"
					eff = c13Eff(r.Cur, "-"+a, r.Cur, "-1.00")
				case "topup":
					typ, amt = "TOPUP", a
					eff = c13Eff(r.Cur, a)
				case "verification":
					// completed row with amount 0.00 and fee 0.00 (card verification)
					amt = "0.00"
					eff = c13Eff(r.Cur, "0")
				case "pending":
					// no completed date: the row is not booked yet
					fmt.Fprintf(&b, "CARD_PAYMENT,Current,%s 16:35:02,,pending,-%s,0.00,%s,PENDING,\n", r.Date, a, r.Cur)
					wants = append(wants, nil)
					continue
				}
				run[r.Cur].Add(run[r.Cur], eff[r.Cur])
				fmt.Fprintf(&b, "%s,Current,%s 16:35:02,%s 05:27:33,%s,%s,%s,%s,COMPLETED,%s\n", typ, r.Date, r.Date, t, amt, fee, r.Cur, run[r.Cur].FloatString(2))
				wants = append(wants, []string{c13T(r.Date, eff)})
				k := r.Date + "|" + r.Cur
				if _, ok := last[k]; !ok {
					order = append(order, k)
				}
				last[k] = c13B(r.Date, acct, r.Cur, run[r.Cur])
			}
			var sw []string
			for _, k := range order {
				sw = append(sw, last[k])
			}
			return b.String(), wants, sw
		},
	}
}

// --- com.wise ---------------------------------------------------------------------

func c13Wise() *c13Importer {
	acct := "Assets:Bank"
	return &c13Importer{
		Name: "com.wise", Account: acct, File: "s.csv", Vars: []string{""}, Curs3: 1,
		Args: func(string) []string {
			return []string{"--account", acct, "--fee", "Expenses:Fees", "--trading", "Expenses:Trading"}
		},
		Alpha: func(d c13Dims) []c13Row {
			return c13Alpha(d, true, []c13KS{{Kind: "out", T: c13TAll}, {Kind: "out-fee", T: c13TFew}, {Kind: "in", T: c13TFew}, {Kind: "out-cross", T: c13TFew},
				{Kind: "in-cross"}, {Kind: "in-cross-targetfee"}, {Kind: "neutral-cross"}, {Kind: "cancelled", NoAmt: true}})
		},
		Render: func(v string, rows []c13Row) (string, [][]string, []string) {
			var b strings.Builder
			var wants [][]string
			b.WriteString(`ID,Status,Direction,"Created on","Finished on","Source fee amount","Source fee currency","Target fee amount","Target fee currency","Source name","Source amount (after fees)","Source currency","Target name","Target amount (after fees)","Target currency","Exchange rate",Reference,Batch` + "\n")
			for i, r := range rows {
				a := c13Plain(r.Amt)
				oth := c13Other(r.Cur)
				t := c13Q(r.Text, ",")
				if r.NT {
					t = "Linkt"
				}
				line := func(status, dir, sfee, sfeeCur, tfee, tfeeCur, tAmt, tCur string) {
					fmt.Fprintf(&b, "\"CARD_TRANSACTION-1%d\",%s,%s,\"%s 15:20:30\",\"%s 15:20:31\",%s,%s,%s,%s,\"Rocky Balboa\",%s,%s,%s,%s,%s,1.75685000,,\n",
						i, status, dir, r.Date, r.Date, sfee, sfeeCur, tfee, tfeeCur, a, r.Cur, t, tAmt, tCur)
				}
				switch r.Kind {
				case "out":
					line("COMPLETED", "OUT", "0.00", r.Cur, "", "", a, r.Cur)
					wants = append(wants, []string{c13T(r.Date, c13Eff(r.Cur, "-"+a))})
				case "out-fee":
					line("COMPLETED", "OUT", "0.06", r.Cur, "", "", a, r.Cur)
					wants = append(wants, []string{c13T(r.Date, c13Eff(r.Cur, "-"+a, r.Cur, "-0.06"))})
				case "in":
					line("COMPLETED", "IN", "0.00", r.Cur, "", "", a, r.Cur)
					wants = append(wants, []string{c13T(r.Date, c13Eff(r.Cur, a))})
				// Cross-currency rows: the importer books a conversion (fees, -source,
				// +target) and, for IN/OUT, a second payment transaction in the target
				// currency — two transactions for one row, by design of the importer.
				case "out-cross":
					line("COMPLETED", "OUT", "0.06", r.Cur, "", "", "21.53", oth)
					wants = append(wants, []string{c13T(r.Date, c13Eff(r.Cur, "-"+a, r.Cur, "-0.06", oth, "21.53")), c13T(r.Date, c13Eff(oth, "-21.53"))})
				case "in-cross":
					line("COMPLETED", "IN", "", "", "", "", "21.53", oth)
					wants = append(wants, []string{c13T(r.Date, c13Eff(r.Cur, "-"+a, oth, "21.53")), c13T(r.Date, c13Eff(oth, "21.53"))})
				case "in-cross-targetfee":
					line("COMPLETED", "IN", "", "", "0.10", oth, "21.53", oth)
					wants = append(wants, []string{c13T(r.Date, c13Eff(r.Cur, "-"+a, oth, "21.53", oth, "-0.10")), c13T(r.Date, c13Eff(oth, "21.53"))})
				case "neutral-cross":
					line("COMPLETED", "NEUTRAL", "0.06", r.Cur, "", "", "21.53", oth)
					wants = append(wants, []string{c13T(r.Date, c13Eff(r.Cur, "-"+a, r.Cur, "-0.06", oth, "21.53"))})
				case "cancelled":
					line("CANCELLED", "OUT", "", "", "", "", a, r.Cur)
					wants = append(wants, nil)
				}
			}
			return b.String(), wants, nil
		},
	}
}

// --- ch.viac ----------------------------------------------------------------------

// value literal -> price the importer must emit (rounded to 2 digits; "" = skipped)
var c13ViacValues = [][2]string{{"0", ""}, {"6768", "6768"}, {"12.34", "12.34"}, {"6768.55627397260273972603", "6768.56"}, {"1e3", "1000"}}

func c13Viac() *c13Importer {
	return &c13Importer{
		Name: "ch.viac", Account: "", File: "s.json", Vars: []string{"", "from"}, Extra: 1,
		Args: func(v string) []string {
			if v == "from" {
				return []string{"--commodity", "Viac", "--from", "2020-02-15"}
			}
			return []string{"--commodity", "Viac"}
		},
		Alpha: func(d c13Dims) []c13Row {
			var rows []c13Row
			for _, dt := range d.Dates {
				for _, val := range c13ViacValues {
					rows = append(rows, c13Row{Kind: "value", Date: dt, Amt: val[0], NT: true})
				}
			}
			return rows
		},
		Render: func(v string, rows []c13Row) (string, [][]string, []string) {
			var parts []string
			var wants [][]string
			for _, r := range rows {
				parts = append(parts, fmt.Sprintf(`{"date":"%s","value":%s}`, r.Date, r.Amt))
				want := ""
				for _, val := range c13ViacValues {
					if val[0] == r.Amt {
						want = val[1]
					}
				}
				if want == "" || (v == "from" && r.Date < "2020-02-15") {
					wants = append(wants, nil)
				} else {
					wants = append(wants, []string{c13P(r.Date, "Viac", c13Rat(want), "CHF")})
				}
			}
			return `{"dailyWealth":[` + strings.Join(parts, ",") + `]}`, wants, nil
		},
	}
}

// --- ch.swissquote ----------------------------------------------------------------

func c13Swissquote() *c13Importer {
	acct := "Assets:Bank"
	return &c13Importer{
		Name: "ch.swissquote", Account: acct, File: "s.csv", Vars: []string{""}, Curs3: 1,
		Args: func(string) []string {
			return []string{"--account", acct, "--dividend", "Income:Dividends", "--fee", "Expenses:Fees", "--interest", "Income:Interest", "--tax", "Expenses:Tax", "--trading", "Expenses:Trading"}
		},
		Alpha: func(d c13Dims) []c13Row {
			ks := []c13KS{{Kind: "kauf", T: c13TAll}, {Kind: "verkauf"}, {Kind: "dividende", T: c13TFew}, {Kind: "dividende-tax"}, {Kind: "capital-gain"}}
			if c13SwissquotePerShareDividend {
				ks = append(ks, c13KS{Kind: "dividende-per-share"})
			}
			ks = append(ks, c13KS{Kind: "depotgebuehren"}, c13KS{Kind: "einzahlung"}, c13KS{Kind: "auszahlung"}, c13KS{Kind: "zins"},
				c13KS{Kind: "other-type", T: c13TAll}, c13KS{Kind: "other-type-negative"}, c13KS{Kind: "forex-pair"})
			return c13Alpha(d, true, ks)
		},
		Render: func(v string, rows []c13Row) (string, [][]string, []string) {
			var b strings.Builder
			var wants [][]string
			b.WriteString("Datum;Auftrag #;Transaktionen;Symbol;Name;ISIN;Anzahl;Stückpreis;Kosten;Aufgelaufene Zinsen;Nettobetrag;Saldo;Währung\n")
			for _, r := range rows {
				d := c13Date(r.Date, "02-01-2006") + " 12:17:42"
				a := r.Amt
				t := c13Q(r.Text, ";")
				line := func(typ, sym, name, isin, qty, price, fee, net, cur string) {
					fmt.Fprintf(&b, "%s;76396333;%s;%s;%s;%s;%s;%s;%s;0.00;%s;3'441.70;%s\n", d, typ, sym, name, isin, qty, price, fee, net, cur)
				}
				eff := c13Eff(r.Cur, a)
				switch r.Kind {
				case "kauf":
					line("Kauf", "VWRL", t, "IE00B3RBWM25", "8.0", "87.60", "0.25", "-"+a, r.Cur)
					eff = c13Eff("VWRL", "8", r.Cur, "-"+a)
				case "verkauf":
					line("Verkauf", "VWRL", "Vanguard All World ETF Dist", "IE00B3RBWM25", "8.0", "87.60", "0.25", a, r.Cur)
					eff = c13Eff("VWRL", "-8", r.Cur, a)
				case "dividende":
					line("Dividende", "VWRL", t, "IE00B3RBWM25", "1.0", a, "0.00", a, r.Cur)
				case "capital-gain":
					line("Capital Gain", "SYM", "NAME", "CH00XX", "1.0", a, "0.00", a, r.Cur)
				case "dividende-tax":
					// gross a, 0.15 withheld, net a - 0.15
					eff = c13Eff(r.Cur, a, r.Cur, "-0.15")
					line("Dividende", "VWRL", "Vanguard All World ETF Dist", "IE00B3RBWM25", "1.0", a, "0.15", eff[r.Cur].FloatString(2), r.Cur)
				case "dividende-per-share":
					// 8 shares, a per share, nothing withheld: net 8a
					eff[r.Cur].Mul(eff[r.Cur], big.NewRat(8, 1))
					line("Dividende", "VWRL", "Vanguard All World ETF Dist", "IE00B3RBWM25", "8.0", a, "0.00", eff[r.Cur].FloatString(2), r.Cur)
				case "depotgebuehren":
					line("Depotgebühren", "", "", "", "1.0", a, "0.00", "-"+a, r.Cur)
					eff = c13Eff(r.Cur, "-"+a)
				case "einzahlung":
					line("Einzahlung", "", "", "", "1.0", a, "0.00", a, r.Cur)
				case "auszahlung":
					line("Auszahlung", "", "", "", "1.0", a, "0.00", "-"+a, r.Cur)
					eff = c13Eff(r.Cur, "-"+a)
				case "zins":
					line("Zins", "", "", "", "1.0", a, "0.00", a, r.Cur)
				case "other-type":
					// a transaction type the importer has no special case for: booked
					// against Expenses:TBD with the type as description
					line(t, "", "", "", "1.0", a, "0.00", a, r.Cur)
				case "other-type-negative":
					line("Spesen Steuerauszug", "", "", "", "1.0", a, "0.00", "-"+a, r.Cur)
					eff = c13Eff(r.Cur, "-"+a)
				case "forex-pair":
					// two lines, one transaction (dated by the second line)
					oth := c13Other(r.Cur)
					line("Forex-Gutschrift", "", "", "", "1.0", a, "0.00", a, r.Cur)
					line("Forex-Belastung", "", "", "", "1.0", "918.00", "0.00", "-918.00", oth)
					eff = c13Eff(r.Cur, a, oth, "-918.00")
				}
				wants = append(wants, []string{c13T(r.Date, eff)})
			}
			return b.String(), wants, nil
		},
	}
}

// --- us.interactivebrokers --------------------------------------------------------

func c13IB() *c13Importer {
	acct := "Assets:Bank"
	const end = "2020-04-22"
	return &c13Importer{
		Name: "us.interactivebrokers", Account: acct, File: "s.csv", Vars: []string{""}, Curs3: 1,
		Args: func(string) []string {
			return []string{"--account", acct, "--dividend", "Income:Dividends", "--fee", "Expenses:Fees", "--interest", "Income:Interest", "--tax", "Expenses:Tax", "--trading", "Expenses:Trading"}
		},
		Alpha: func(d c13Dims) []c13Row {
			return c13Alpha(d, true, []c13KS{{Kind: "stock-buy"}, {Kind: "stock-sell"}, {Kind: "forex-buy"}, {Kind: "forex-sell"}, {Kind: "deposit"}, {Kind: "withdrawal"},
				{Kind: "dividend", T: c13TAll}, {Kind: "withholding-tax", T: c13TFew}, {Kind: "interest-debit", T: c13TAll}, {Kind: "interest-credit"}})
		},
		Render: func(v string, rows []c13Row) (string, [][]string, []string) {
			var b strings.Builder
			var wants [][]string
			total := map[string]*big.Rat{}
			var order []string
			b.WriteString("Statement,Header,Field Name,Field Value\nStatement,Data,BrokerName,Interactive Brokers\nStatement,Data,Title,Activity Statement\n")
			b.WriteString("Statement,Data,Period,\"January 1, 2020 - April 22, 2020\"\nAccount Information,Data,Base Currency,EUR\n")
			for _, r := range rows {
				a := c13Q(c13Commas(r.Amt), ",")
				na := c13Q("-"+c13Commas(r.Amt), ",")
				desc := "AAPL(US0378331005) " + r.Text
				var eff map[string]*big.Rat
				switch r.Kind {
				case "stock-buy":
					fmt.Fprintf(&b, "Trades,Data,Order,Stocks,%s,AAPL,\"%s, 10:17:49\",7,10.00,10.00,%s,-1.00,0,0,40.425,O\n", r.Cur, r.Date, na)
					eff = c13Eff("AAPL", "7", r.Cur, "-"+r.Amt, r.Cur, "-1.00")
				case "stock-sell":
					fmt.Fprintf(&b, "Trades,Data,Order,Stocks,%s,AAPL,\"%s, 10:17:49\",-7,10.00,10.00,%s,-1.00,0,0,40.425,C\n", r.Cur, r.Date, a)
					eff = c13Eff("AAPL", "-7", r.Cur, r.Amt, r.Cur, "-1.00")
				case "forex-buy":
					// commission is charged in the base currency (EUR)
					fmt.Fprintf(&b, "Trades,Data,Order,Forex,%s,GBP.%s,\"%s, 11:17:34\",%s,1.03371,,-449.39,-1.1,,,,3.446,\n", r.Cur, r.Cur, r.Date, a)
					eff = c13Eff("GBP", r.Amt, r.Cur, "-449.39", "EUR", "-1.1")
				case "forex-sell":
					fmt.Fprintf(&b, "Trades,Data,Order,Forex,%s,GBP.%s,\"%s, 11:17:34\",%s,1.03371,,449.39,0,,,,3.446,\n", r.Cur, r.Cur, r.Date, na)
					eff = c13Eff("GBP", "-"+r.Amt, r.Cur, "449.39")
				case "deposit":
					fmt.Fprintf(&b, "Deposits & Withdrawals,Data,%s,%s,Electronic Fund Transfer,%s\n", r.Cur, r.Date, a)
					eff = c13Eff(r.Cur, r.Amt)
				case "withdrawal":
					fmt.Fprintf(&b, "Deposits & Withdrawals,Data,%s,%s,Disbursement,%s\n", r.Cur, r.Date, na)
					eff = c13Eff(r.Cur, "-"+r.Amt)
				case "dividend":
					fmt.Fprintf(&b, "Dividends,Data,%s,%s,%s,%s\n", r.Cur, r.Date, c13Q(desc, ","), a)
					eff = c13Eff(r.Cur, r.Amt)
				case "withholding-tax":
					fmt.Fprintf(&b, "Withholding Tax,Data,%s,%s,%s,%s,\n", r.Cur, r.Date, c13Q(desc, ","), na)
					eff = c13Eff(r.Cur, "-"+r.Amt)
				case "interest-debit":
					fmt.Fprintf(&b, "Interest,Data,%s,%s,%s,%s\n", r.Cur, r.Date, c13Q(r.Text, ","), na)
					eff = c13Eff(r.Cur, "-"+r.Amt)
				case "interest-credit":
					fmt.Fprintf(&b, "Interest,Data,%s,%s,%s Credit Interest for Jan-2020,%s\n", r.Cur, r.Date, r.Cur, a)
					eff = c13Eff(r.Cur, r.Amt)
				}
				wants = append(wants, []string{c13T(r.Date, eff)})
				for k, q := range eff {
					if total[k] == nil {
						total[k] = new(big.Rat)
						order = append(order, k)
					}
					total[k].Add(total[k], q)
				}
			}
			// the statement's closing positions (consistent with its rows) become balance
			// assertions on the period end date
			sort.Strings(order)
			var sw []string
			for _, k := range order {
				if k == "AAPL" {
					fmt.Fprintf(&b, "Open Positions,Data,Summary,Stocks,USD,AAPL,%s,1,100.00,100.00,100.00,100.00,100.00,100.00,\n", total[k].FloatString(0))
				} else {
					fmt.Fprintf(&b, "Forex Balances,Data,Forex,CHF,%s,%s,1,-320.07,1,320.07,0,\n", k, total[k].FloatString(2))
				}
				sw = append(sw, c13B(end, acct, k, total[k]))
			}
			return b.String(), wants, sw
		},
	}
}

func c13Importers() []*c13Importer {
	return []*c13Importer{c13Cumulus(), c13Postfinance(), c13Supercard(), c13Swisscard(), c13Swisscard2(), c13Revolut(), c13Revolut2(), c13Viac(), c13Wise(), c13IB(), c13Swissquote()}
}

func c13ImporterByName(n string) *c13Importer {
	for _, i := range c13Importers() {
		if i.Name == n {
			return i
		}
	}
	return nil
}

// ---------------------------------------------------------------------------------
// oracle

var (
	c13DateStart = regexp.MustCompile(`^\d{4}-\d{2}-\d{2}`)
	c13Words     = regexp.MustCompile(`[A-Za-z]+`)
)

// c13Scrub turns the constant head of a diagnostic into a key fragment.
func c13Scrub(s string) string {
	s = strings.TrimSpace(s)
	if i := strings.IndexAny(s, "[\"'%{\n"); i >= 0 {
		s = s[:i]
	}
	ws := c13Words.FindAllString(s, 6)
	if len(ws) == 0 {
		return "error"
	}
	return strings.ToLower(strings.Join(ws, "-"))
}

// c13StripStray removes up to four trailing or leading non-journal lines if what
// remains parses. Lines that start with a date are never treated as stray, so a
// directive whose own syntax is broken is not mistaken for debug output.
// (In-process, text written directly to os.Stdout is appended after the text written
// through cobra's writer; the real binary prints it where it occurs.)
func c13StripStray(text string) (clean, stray string, ok bool) {
	lines := strings.SplitAfter(text, "\n")
	if len(lines) > 0 && lines[len(lines)-1] == "" {
		lines = lines[:len(lines)-1]
	}
	try := func(keep, drop []string) bool {
		nonBlank := false
		for _, l := range drop {
			if c13DateStart.MatchString(l) {
				return false
			}
			if strings.TrimSpace(l) != "" {
				nonBlank = true
			}
		}
		if !nonBlank {
			return false
		}
		c := strings.Join(keep, "")
		if _, err, p := parseText(c); err != nil || p != "" {
			return false
		}
		clean, stray, ok = c, strings.Join(drop, ""), true
		return true
	}
	for k := 1; k <= 4 && k <= len(lines); k++ {
		if try(lines[:len(lines)-k], lines[len(lines)-k:]) {
			return
		}
		if try(lines[k:], lines[:k]) {
			return
		}
	}
	return "", "", false
}

// c13Read turns parsed importer output into canonical items and collects accounts.
func c13Read(f directives.File, acct string) (items []string, accounts []string) {
	seen := map[string]bool{}
	use := func(a string) {
		if !seen[a] {
			seen[a] = true
			accounts = append(accounts, a)
		}
	}
	for _, d := range f.Directives {
		switch x := d.Directive.(type) {
		case directives.Transaction:
			eff := map[string]*big.Rat{}
			for _, b := range x.Bookings {
				cr, dr, com := b.Credit.Extract(), b.Debit.Extract(), b.Commodity.Extract()
				use(cr)
				use(dr)
				q, ok := new(big.Rat).SetString(b.Quantity.Extract())
				if !ok {
					q = new(big.Rat)
				}
				if eff[com] == nil {
					eff[com] = new(big.Rat)
				}
				if dr == acct {
					eff[com].Add(eff[com], q)
				}
				if cr == acct {
					eff[com].Sub(eff[com], q)
				}
			}
			items = append(items, c13T(x.Date.Extract(), eff))
		case directives.Assertion:
			for _, bal := range x.Balances {
				use(bal.Account.Extract())
				q, ok := new(big.Rat).SetString(bal.Quantity.Extract())
				if !ok {
					q = new(big.Rat)
				}
				items = append(items, c13B(x.Date.Extract(), bal.Account.Extract(), bal.Commodity.Extract(), q))
			}
		case directives.Price:
			q, ok := new(big.Rat).SetString(x.Price.Extract())
			if !ok {
				q = new(big.Rat)
			}
			items = append(items, c13P(x.Date.Extract(), x.Commodity.Extract(), q, x.Target.Extract()))
		default:
			items = append(items, fmt.Sprintf("X|%T|%s", x, d.Extract()))
		}
	}
	sort.Strings(accounts)
	return
}

func c13Show(s string) string {
	if utf8.ValidString(s) {
		return s
	}
	return fmt.Sprintf("(not UTF-8, Go-quoted) %q", s)
}

// c13One runs the oracle on one statement. All findings of the case are returned (a
// stray debug line does not stop the remaining checks).
func c13One(drv *core.Driver, cs *c13Case) (fs []c13Finding, out *core.Outcome, runs int) {
	content := cs.content()
	files := map[string]string{cs.File: content}
	for k, v := range cs.MoreFiles {
		files[k] = v
	}
	drv.Files(files)
	out = drv.Run(nil, cs.Args...)
	runs++
	ctx := func(msg string) string {
		return fmt.Sprintf("%s\ncommand: knut %s\nrows: %+v\nstatement:\n%s\n--- stdout:\n%s--- stderr:\n%s", msg, strings.Join(cs.Args, " "), cs.Rows, c13Show(content), out.Stdout, out.Stderr)
	}
	add := func(key, msg string) { fs = append(fs, c13Finding{key, ctx(msg)}) }
	if ab := out.Abnormal(); ab != "" {
		add("C13:abnormal:"+cs.Imp+":"+cs.textClass(), "importer terminated abnormally: "+ab)
		return
	}
	if out.Exit != 0 {
		add("C13:rejects-well-formed:"+cs.Imp+":"+cs.textClass()+":"+c13Scrub(out.Stderr), fmt.Sprintf("importer exits %d on a well-formed statement", out.Exit))
		return
	}
	// 2. stdout must be a valid journal
	text := out.Stdout
	f, err, pan := parseText(text)
	if pan != "" {
		add("C13:parser-panic:"+cs.Imp, "knut's parser panicked on the importer output: "+pan)
		return
	}
	if err != nil {
		clean, stray, ok := c13StripStray(text)
		if !ok {
			add("C13:stdout-not-parseable:"+cs.Imp+":"+cs.textClass(), "importer output is not valid for knut's parser: "+err.Error())
			return
		}
		add("C13:debug-output:"+cs.Imp, fmt.Sprintf("stdout contains text that is not part of the journal: %q (without it the output parses)", stray))
		text = clean
		f, _, _ = parseText(text)
	}
	items, accounts := c13Read(f, cs.Account)
	// 3. with the accounts opened, check accepts it and print reproduces it
	if len(f.Directives) > 0 {
		var opens strings.Builder
		for _, a := range accounts {
			opens.WriteString(c13OpenDate + " open " + a + "\n")
		}
		j := text
		if len(accounts) > 0 {
			j = opens.String() + "\n" + text
		}
		drv.Files(map[string]string{cs.File: content, "j.knut": j})
		chk := drv.Run(nil, "check", "j.knut")
		runs++
		if chk.Exit != 0 || chk.Abnormal() != "" {
			add("C13:check-rejects-output:"+cs.Imp+":"+c13Scrub(chk.Stderr+chk.Abnormal()), "`knut check` rejects the importer output (accounts opened on "+c13OpenDate+"): "+chk.Stderr+chk.Abnormal())
		} else {
			pr := drv.Run(nil, "print", "j.knut")
			runs++
			if pr.Exit != 0 || pr.Abnormal() != "" || pr.Stdout != j {
				add("C13:print-differs:"+cs.Imp+":"+cs.textClass(), fmt.Sprintf("`knut print` of the opened importer output does not reproduce it (exit %d %s)\n--- expected:\n%s--- printed:\n%s%s", pr.Exit, pr.Abnormal(), j, pr.Stdout, pr.Stderr))
			}
		}
	}
	// 4. row <-> directive correspondence
	remaining := map[string]int{}
	for _, it := range items {
		remaining[it]++
	}
	for i, ws := range cs.RowWants {
		for _, w := range ws {
			if remaining[w] > 0 {
				remaining[w]--
				continue
			}
			add("C13:row-effect:"+cs.Imp+":"+cs.Rows[i].Kind, fmt.Sprintf("row %d (%+v) must yield %s (T|date|commodity=net effect on %s); the output yields %v", i, cs.Rows[i], w, cs.Account, items))
			return
		}
	}
	for _, w := range cs.StmtWants {
		if remaining[w] > 0 {
			remaining[w]--
			continue
		}
		add("C13:statement-balance-missing:"+cs.Imp, fmt.Sprintf("the statement carries %s; the output yields %v", w, items))
		return
	}
	var extra []string
	for it, n := range remaining {
		if n > 0 {
			extra = append(extra, it)
		}
	}
	if len(extra) > 0 {
		sort.Strings(extra)
		add("C13:extra-output:"+cs.Imp+":"+extra[0][:1], fmt.Sprintf("directives that no statement row accounts for: %v (all: %v)", extra, items))
	}
	return
}

// ---------------------------------------------------------------------------------
// enumeration

func c13Enum(e *core.Env, alpha []c13Row, n int, mono int, f func(rows []c13Row)) bool {
	seq := make([]c13Row, 0, n)
	var rec func(depth int) bool
	rec = func(depth int) bool {
		if e.Shard == 0 {
			e.Count("states")
			if depth > 0 {
				e.Count("transitions")
			}
		}
		if depth == n {
			f(seq)
			return true
		}
		for _, r := range alpha {
			if depth <= 1 && e.Expired() {
				return false
			}
			if depth > 0 && mono != 0 {
				prev := seq[depth-1].Date
				if (mono > 0 && r.Date < prev) || (mono < 0 && r.Date > prev) {
					continue
				}
			}
			seq = append(seq, r)
			ok := rec(depth + 1)
			seq = seq[:depth]
			if !ok {
				return false
			}
		}
		return true
	}
	return rec(0)
}

func c13Dimensions(imp *c13Importer, reduced bool) c13Dims {
	texts := c13TextsAll
	if imp.Latin1 {
		texts = c13TextsLatin1
	}
	d := c13Dims{Dates: []string{c13D1, c13D2}, Amts: []string{"0.50", "12.34", "1'234.56"}, Curs: []string{"CHF", "EUR"}, Texts: texts, Few: texts[:2]}
	if reduced {
		// three-row statements (thorough tier): the hostile texts only (quote, Unicode,
		// empty), one text for secondary kinds
		d.Texts = []string{texts[1], texts[4], texts[5]}
		d.Few = texts[1:2]
		if imp.Curs3 < 2 {
			d.Curs = d.Curs[:1]
		}
	}
	return d
}

func c13Build(imp *c13Importer, v string, rows []c13Row) *c13Case {
	content, rw, sw := imp.Render(v, rows)
	cs := &c13Case{Imp: imp.Name, Var: v, File: imp.File, Account: imp.Account, ContentB64: base64.StdEncoding.EncodeToString([]byte(content)),
		Rows: append([]c13Row(nil), rows...), RowWants: rw, StmtWants: sw}
	cs.Args = append(append([]string{"import", imp.Name}, imp.Args(v)...), imp.File)
	if utf8.ValidString(content) {
		cs.Content = content
	}
	return cs
}

// c13BuildSplit: one statement file per row, all given to one invocation.
func c13BuildSplit(imp *c13Importer, v string, rows []c13Row) *c13Case {
	cs := &c13Case{Imp: imp.Name, Var: v, File: "s0.csv", Account: imp.Account, Rows: append([]c13Row(nil), rows...), MoreFiles: map[string]string{}}
	cs.Args = append([]string{"import", imp.Name}, imp.Args(v)...)
	for i, r := range rows {
		content, rw, sw := imp.Render(v, []c13Row{r})
		// keep the row ids of the single statement (Render numbers rows from 0)
		name := fmt.Sprintf("s%d.csv", i)
		if i == 0 {
			cs.ContentB64 = base64.StdEncoding.EncodeToString([]byte(content))
			cs.Content = content
		} else {
			cs.MoreFiles[name] = content
		}
		cs.RowWants = append(cs.RowWants, rw...)
		cs.StmtWants = append(cs.StmtWants, sw...)
		cs.Args = append(cs.Args, name)
	}
	return cs
}

func c13Run(e *core.Env) {
	drv := e.Driver()
	maxRows := core.Pick(e, 2, 3)
	for _, imp := range c13Importers() {
		cases := 0
		for _, v := range imp.Vars {
			for n := 0; n <= maxRows+imp.Extra; n++ {
				alpha := imp.Alpha(c13Dimensions(imp, n >= 3 && imp.Extra == 0))
				done := c13Enum(e, alpha, n, imp.Mono, func(rows []c13Row) {
					cases++
					if !e.Take() {
						return
					}
					cs := c13Build(imp, v, rows)
					fs, out, runs := c13One(drv, cs)
					e.Count("evaluations")
					e.Add("command_runs", runs)
					e.Count("statements_" + imp.Name)
					if len(rows) >= 2 {
						e.Count("distinct_nontrivial")
					}
					e.Distinct(imp.Name + "\n" + out.Stdout)
					if len(rows) >= 2 && e.CaseNo()%5003 == 0 {
						e.Sample(map[string]any{"importer": imp.Name, "variant": v, "rows": cs.Rows, "expected": cs.RowWants})
					}
					if e.CaseNo()%499 == 0 {
						// conformance of the in-process driver with the plain binary. Direct
						// os.Stdout writes are appended in-process but interleaved in the
						// binary, hence equality up to rotation.
						b := drv.RunBinary(cs.Args...)
						same := b.Stdout == out.Stdout || (len(b.Stdout) == len(out.Stdout) && strings.Contains(out.Stdout+out.Stdout, b.Stdout))
						if b.Exit != out.Exit || !same {
							e.EngineError("binary mismatch for %v: in-process exit=%d stdout=%q vs binary exit=%d stdout=%q stderr=%q", cs.Args, out.Exit, out.Stdout, b.Exit, b.Stdout, b.Stderr)
						} else {
							e.Add("traces_validated_against_impl", 1)
						}
					}
					for _, fd := range fs {
						key := fd.Key
						e.Violation(key, fd.Detail, cs, func() bool {
							fs2, _, _ := c13One(drv, cs)
							for _, f2 := range fs2 {
								if f2.Key == key {
									return true
								}
							}
							return false
						})
					}
					if imp.Name == "com.wise" && len(rows) >= 2 {
						// the same rows as one statement file per row in one invocation
						sp := c13BuildSplit(imp, v, rows)
						fs2, _, r2 := c13One(drv, sp)
						_ = r2
						e.Count("split_file_invocations")
						for _, fd := range fs2 {
							key := fd.Key + ":split-files"
							e.Violation(key, fd.Detail, sp, func() bool {
								fs3, _, _ := c13One(drv, sp)
								for _, f3 := range fs3 {
									if f3.Key+":split-files" == key {
										return true
									}
								}
								return false
							})
						}
					}
				})
				if !done {
					e.Note("%s: budget expired while enumerating %d-row statements", imp.Name, n)
					return
				}
				if n == 2 || n == maxRows+imp.Extra {
					e.Note("%s%s: row alphabet of %d symbols at %d rows", imp.Name, c13VarTag(v), len(alpha), n)
				}
			}
		}
		e.Note("%s: %d statements enumerated (rows <= %d)", imp.Name, cases, maxRows+imp.Extra)
		e.SetBound("rows_"+imp.Name, maxRows+imp.Extra)
	}
	e.Note("not covered: wise NEUTRAL rows with equal source and target currency (the importer emits nothing for them); swissquote Vergütung/Belastung (same code path as Einzahlung/Auszahlung); cumulus lines with fewer than two fields; statements whose row order contradicts their balance column")
}

func c13VarTag(v string) string {
	if v == "" {
		return ""
	}
	return "[" + v + "]"
}

func c13Replay(e *core.Env, data json.RawMessage) (bool, string) {
	var cs c13Case
	if err := json.Unmarshal(data, &cs); err != nil {
		return false, err.Error()
	}
	fs, _, _ := c13One(e.Driver(), &cs)
	if len(fs) == 0 {
		return false, "all C13 oracles hold for the recorded statement"
	}
	var keys []string
	for _, f := range fs {
		keys = append(keys, f.Key)
	}
	return true, strings.Join(keys, ", ") + "\n" + fs[0].Detail
}

func init() {
	core.Register(&core.Check{
		ID: "C13", Level: "model_checking", Run: c13Run, Replay: c13Replay,
		Added:       "texts that sort between a double and a single quote; wise: the same rows as one statement file per row in one invocation; revolut card payments in a foreign currency",
		QuickBudget: 180 * time.Second, ThoroughBudget: 14 * time.Minute,
		Rule: "for each of the 11 importers every statement of <= N rows (N = 2 quick, 3 thorough; viac one more) over the importer's row alphabet = {2 dates incl. same day} x {every booking kind/sign of the importer, incl. non-booking rows} x {0.50, 12.34, 1'234.56 in the format's separator style} x {CHF, EUR where the format carries a currency} x {abc, a \"quoted\" b, semi;colon, comma, x, Zürich — ☕, empty} (CSV-quoted per dialect; BOM / Latin-1 / JSON as the format requires); " +
			"three-row statements use the texts {quoted, Unicode, empty} (one currency for wise, swissquote and interactivebrokers); real importer in-process: exit 0, stdout parses with knut's parser, opened output passes check and print reproduces it byte for byte, multiset of (transaction date + net effect on the import account per commodity, assertions, prices) equals the grammar's expectation; non-trivial = two or more rows",
		Assumptions: []string{
			"statement grammars are transcribed from each importer's field table and golden input; shapes outside them are not covered",
			"revolut/revolut2/interactivebrokers statements carry balances consistent with their rows (computed from a zero opening balance) and rows are ordered as the format orders them",
			"swisscard2 Gutschrift rows are generated with a negative amount only",
			"wise cross-currency rows are expected to yield the importer's documented conversion + payment pair; a swissquote forex pair is one row yielding one transaction",
		},
	})
}
