package checks

import (
	"encoding/json"
	"fmt"
	"strings"
	"time"

	"kmc/core"
	"kmc/jr"
	"kmc/ref"
)

// C01 — double-entry conservation: every Delta cell of every complete report is zero.

func priceTemplates(date string) []jr.Dir {
	return []jr.Dir{
		jr.P(date, "USD", "0.9", "CHF"),
		jr.P(date, "USD", "0.95", "CHF"),
		jr.P(date, "CHF", "1.25", "USD"),
		jr.P(date, "CHF", "1.3", "USD"),
		jr.P(date, "USD", "0.9000004", "CHF"),
		jr.P(date, "AAPL", "100", "USD"),
		jr.P(date, "AAPL", "33.33333333", "USD"),
		jr.P(date, "EUR", "1.08", "CHF"),
		// a connected commodity quoted in one that is not connected yet (AAPL via USD)
		jr.P(date, "USD", "0.01", "AAPL"),
	}
}

func valuedTrxTemplates(date string) []jr.Dir {
	return []jr.Dir{
		jr.T(date, "buy usd", jr.B(accOpening, accChecking, "100", "USD")),
		jr.T(date, "buy aapl", jr.B(accOpening, accCash, "2", "AAPL")),
		jr.T(date, "sell aapl", jr.B(accCash, accOpening, "2", "AAPL")),
		jr.T(date, "card usd", jr.B(accCard, accFood, "10", "USD")),
		jr.T(date, "salary chf", jr.B(accSalary, accChecking, "100", "CHF")),
		jr.T(date, "eur", jr.B(accOpening, accBaenk, "33.33333333", "EUR")),
		jr.T(date, "bonus usd", jr.B(accIncBank, accChecking, "50", "USD")),
		jr.T(date, "inner node", jr.B(accOpening, accBank, "3", "USD")),
	}
}

func c01One(drv *core.Driver, body []jr.Dir, cfg ref.BalCfg, csv bool) (string, string, *core.Outcome) {
	all := append(opensPrefix(), body...)
	text := jr.RenderAll(all)
	drv.Files(map[string]string{"j.knut": text})
	args := []string{"balance", "--color=false", "--digits", "8"}
	if csv {
		args = []string{"balance", "--csv"}
	}
	args = append(append(args, cfg.Args()...), "j.knut")
	out := drv.Run(nil, args...)
	ctx := func() string {
		return fmt.Sprintf("\ncommand: knut %s\njournal body:\n%s\nreport:\n%s", strings.Join(args, " "), jr.RenderAll(body), out.Stdout)
	}
	if ab := out.Abnormal(); ab != "" {
		return "C01:abnormal", ab + ctx(), out
	}
	if out.Exit != 0 {
		if cfg.Valuation == "" {
			return "C01:unexpected-failure", out.Stderr + ctx(), out
		}
		if missing, _ := ref.NewLedger(all).MissingPrice(cfg.Valuation); !missing {
			return "C01:unexpected-failure:valued", out.Stderr + ctx(), out
		}
		if out.Stdout != "" || strings.TrimSpace(out.Stderr) == "" {
			return "C01:unclean-failure", "failing run printed to stdout or no diagnostic" + ctx(), out
		}
		return "", "failed", out
	}
	var deltaCells [][]string
	if csv {
		rows, err := ref.ParseCSVTable(out.Stdout)
		if err != nil {
			return "C01:malformed-csv", err.Error() + ctx(), out
		}
		in := false
		for _, r := range rows {
			if len(r) == 0 {
				continue
			}
			if r[0] != "" {
				in = r[0] == "Delta"
			}
			if in {
				skip := 1
				if cfg.Valuation == "" {
					skip = 2
				}
				if len(r) >= skip {
					deltaCells = append(deltaCells, r[skip:])
				}
			}
		}
	} else {
		tbl, err := ref.ReadBalanceText(out.Stdout)
		if err != nil {
			return "C01:malformed-table", err.Error() + ctx(), out
		}
		for _, r := range tbl.Rows {
			if r.Section == "Delta" {
				deltaCells = append(deltaCells, r.Cells)
			}
		}
	}
	if len(deltaCells) == 0 {
		return "C01:no-delta-row", "report has no Delta row" + ctx(), out
	}
	for _, cells := range deltaCells {
		for i, c := range cells {
			v, err := ref.ParseNum(c)
			if err != nil {
				return "C01:malformed-cell", err.Error() + ctx(), out
			}
			if v.Sign() != 0 {
				f := "unvalued"
				if cfg.Valuation != "" {
					f = "valued"
				}
				return "C01:delta-nonzero:" + f + ":" + cfgFeatures(cfg), fmt.Sprintf("Delta column %d = %s", i, c) + ctx(), out
			}
		}
	}
	return "", "", out
}

func c01Cfgs(full bool) []ref.BalCfg {
	var cs []ref.BalCfg
	froms := []string{"", "2020-02-29"}
	tos := []string{"", "2020-02-29"}
	lasts := []int{0, 2}
	if full {
		froms = []string{"", "2020-01-31", "2020-02-29"}
		tos = []string{"", "2020-02-29", "2020-03-02"}
		lasts = []int{0, 1, 2}
	}
	for _, v := range []string{"", "CHF", "USD"} {
		for _, f := range froms {
			for _, t := range tos {
				for iv := ref.Once; iv <= ref.Yearly; iv++ {
					if !full && (iv == ref.Weekly || iv == ref.Yearly) {
						continue
					}
					for _, last := range lasts {
						if iv == ref.Once && last != 0 {
							continue
						}
						for _, diff := range []bool{false, true} {
							for _, nc := range []bool{false, true} {
								cs = append(cs, ref.BalCfg{Valuation: v, From: f, To: t, Interval: iv, Last: last, Diff: diff, NoClose: nc})
							}
						}
					}
				}
			}
		}
	}
	return cs
}

func c01Alphabet(dates []string) []jr.Dir {
	var a []jr.Dir
	for _, d := range dates {
		a = append(a, valuedTrxTemplates(d)...)
		a = append(a, priceTemplates(d)...)
		a = append(a, trxTemplates(d, false)[4:]...) // negative transfer, large opening, trade, accrual
	}
	return a
}

func c01Run(e *core.Env) {
	e.ReserveTail()
	drv := e.Driver()
	type plan struct {
		alpha []jr.Dir
		n     int
		cfgs  []ref.BalCfg
		tag   string
	}
	d3 := []string{"2020-01-30", "2020-02-29", "2020-03-31"}
	var plans []plan
	if e.Thorough() {
		plans = []plan{
			{c01Alphabet(d3), 2, c01Cfgs(true), "full"},
			{c01Alphabet(d3[:2]), 3, c01Cfgs(false)[:0], "core"},
		}
		// core flag set for depth 3
		var core3 []ref.BalCfg
		for _, v := range []string{"", "CHF", "USD"} {
			for _, iv := range []ref.Interval{ref.Once, ref.Daily, ref.Monthly, ref.Quarterly} {
				for _, diff := range []bool{false, true} {
					for _, nc := range []bool{false, true} {
						core3 = append(core3, ref.BalCfg{Valuation: v, Interval: iv, Diff: diff, NoClose: nc})
					}
				}
			}
		}
		plans[1].cfgs = core3
	} else {
		plans = []plan{{c01Alphabet(d3), 2, c01Cfgs(false), "full"}}
	}
	for _, pl := range plans {
		e.Note("%s: journal alphabet %d symbols, depth <= %d, %d flag sets per journal", pl.tag, len(pl.alpha), pl.n, len(pl.cfgs))
		forEachSeq(e, pl.alpha, pl.n, func(seq []jr.Dir) {
			for ci, cfg := range pl.cfgs {
				if !e.Take() {
					continue
				}
				n := e.CaseNo()
				csv := n%3 == 0
				key, detail, out := c01One(drv, seq, cfg, csv)
				e.Count("evaluations")
				if detail == "failed" {
					e.Count("runs_failing_on_missing_price")
				} else if cfg.Valuation != "" {
					e.Count("distinct_nontrivial")
				}
				if n%100003 == 0 {
					e.Sample(map[string]any{"journal": jr.ShortAll(seq), "flags": cfg.Args()})
				}
				if ci%5 == 0 {
					e.Distinct(out.Stdout)
				}
				if key != "" {
					cs := struct {
						balCase
						CSV bool
					}{balCase{cloneDirs(seq), cfg}, csv}
					e.Violation(key, detail, cs, func() bool {
						k, _, _ := c01One(drv, cs.Body, cs.Cfg, cs.CSV)
						return k == key
					})
				} else if n%20011 == 0 {
					args := []string{"balance", "--color=false", "--digits", "8"}
					if csv {
						args = []string{"balance", "--csv"}
					}
					b := drv.RunBinary(append(append(args, cfg.Args()...), "j.knut")...)
					if b.Exit != out.Exit || !sameTableUpToRowOrder(b.Stdout, out.Stdout) {
						e.EngineError("binary mismatch for %v:\n%s\nvs\n%s", cfg.Args(), b.Stdout, out.Stdout)
					} else {
						e.Count("traces_validated_against_impl")
					}
				}
			}
		})
		e.SetBound("journal_depth_"+pl.tag, pl.n)
	}
	e.BeginTail()
	// position life histories: bought, sold out completely, bought again, sold out again ...
	chainN := core.Pick(e, 4, 6)
	var chainCfgs []ref.BalCfg
	for _, v := range []string{"CHF", "USD", "AAPL"} {
		chainCfgs = append(chainCfgs, ref.BalCfg{Valuation: v}, ref.BalCfg{Valuation: v, Interval: ref.Daily}, ref.BalCfg{Valuation: v, Interval: ref.Weekly, Diff: true, NoClose: true})
	}
	chainCfgs = append(chainCfgs, ref.BalCfg{Interval: ref.Daily})
	e.Note("position chains: 7 step kinds, <= %d steps on consecutive days, %d flag sets", chainN, len(chainCfgs))
	positionChains(e, chainN, func(seq []jr.Dir) {
		for _, cfg := range chainCfgs {
			if !e.Take() {
				continue
			}
			key, detail, _ := c01One(drv, seq, cfg, e.CaseNo()%2 == 0)
			e.Count("evaluations")
			if key != "" {
				cs := struct {
					balCase
					CSV bool
				}{balCase{cloneDirs(seq), cfg}, e.CaseNo()%2 == 0}
				e.Violation(key, detail, cs, func() bool { k, _, _ := c01One(drv, cs.Body, cs.Cfg, cs.CSV); return k == key })
			}
		}
	})
	e.SetBound("position_chain_steps", chainN)
	if e.Take() {
		// The explorer treats a processor callback as atomic. Whether the stages of the
		// per-day pipeline share mutable data without synchronisation (which would let a
		// report be built from half-updated postings) is decided by the race detector on
		// free-running executions of the valued accrual scenarios, ...
		raceTier(e, core.Pick(e, 4, 20), "C01", "pipe-accrual")
		// ... and the Delta row of a long valued accrual journal is observed on the real
		// binary (each of its days is a chance for two stages to overlap).
		c01FreeRunning(e, drv)
	}
}

func c01FreeRunning(e *core.Env, drv *core.Driver) {
	var b strings.Builder
	b.WriteString("2019-01-01 open Assets:Bank\n2019-01-01 open Assets:Prepaid\n2019-01-01 open Expenses:Rent\n")
	d := time.Date(2019, 1, 1, 0, 0, 0, 0, time.UTC)
	for i := 0; i < 730; i++ {
		fmt.Fprintf(&b, "%s price USD 0.%02d CHF\n", d.AddDate(0, 0, i).Format("2006-01-02"), 75+(i*7)%23)
	}
	b.WriteString("@accrue daily 2019-01-01 2020-12-30 Assets:Prepaid\n2019-01-01 \"rent\"\nAssets:Bank Expenses:Rent 73000 USD\n")
	drv.Files(map[string]string{"j.knut": b.String()})
	reps := core.Pick(e, 6, 30)
	for i := 0; i < reps; i++ {
		o := drv.RunBinary("balance", "-v", "CHF", "--years", "--csv", "j.knut")
		e.Count("evaluations")
		e.Count("free_running_binary_runs")
		if o.Exit != 0 {
			e.Violation("C01:free-running-failure", o.Stderr, map[string]string{"scenario": "two-year daily accrual"}, nil)
			return
		}
		for _, ln := range strings.Split(o.Stdout, "\n") {
			if strings.HasPrefix(ln, "Delta") && strings.Trim(ln[len("Delta"):], ",0") != "" {
				e.Violation("C01:delta-nonzero:free-running", "run "+fmt.Sprint(i+1)+" of `balance -v CHF --years --csv` on a two-year daily accrual with daily price changes prints: "+ln,
					map[string]string{"scenario": "two-year daily accrual", "row": ln}, nil)
				return
			}
		}
	}
}

func c01Replay(e *core.Env, data json.RawMessage) (bool, string) {
	var cs struct {
		balCase
		CSV bool
	}
	if err := json.Unmarshal(data, &cs); err != nil {
		return false, err.Error()
	}
	key, detail, _ := c01One(e.Driver(), cs.Body, cs.Cfg, cs.CSV)
	return key != "", key + "\n" + detail
}

func init() {
	core.Register(&core.Check{
		ID: "C01", Level: "model_checking", Run: c01Run, Replay: c01Replay,
		Added:       "position life histories (two foreign positions: buy, sell out, new price, unrelated booking; <= 4 | 6 steps) x valuation {CHF, USD, AAPL}; race detector on the valued accrual pipeline scenarios; Delta row of a two-year daily accrual on the free-running binary",
		QuickBudget: 240 * time.Second, ThoroughBudget: 14 * time.Minute,
		Rule: "every sequence of <= N body directives (positions in USD/AAPL/EUR on assets and a liability, sale to zero, income collision with a valuation account, negative transfer, two-commodity trade, monthly accrual, six price declarations incl. inverse and chained) x 3 dates, " +
			"x valuation {none,CHF,USD} x --from/--to x 6 intervals x --last x --diff x --close, text and CSV; invariant: every cell of every Delta row is zero; non-trivial = valued runs that succeed",
		Assumptions: []string{"valued runs that fail on a missing price are outside the property; they must fail cleanly and agree with the reference's missing-price rule"},
	})
}
