package checks

import (
	"encoding/json"
	"fmt"
	"os"
	"sort"
	"strings"
	"time"

	"kmc/core"
	"kmc/jr"

	"github.com/anishathalye/porcupine"
	"github.com/sboehler/knut/lib/model/registry"
	"github.com/sboehler/knut/lib/verifrt/vsched"
)

// C19 — concurrent loading and processing is deadlock-free, terminates, loses or
// duplicates no directive, and reports a failing stage's error.
//
// Every scenario is run under the cooperative scheduler for ALL schedules within the
// deviation bounds (preemptions; non-default picks at forced switches / select /
// rendezvous partners), with happens-before state caching.

type scenario struct {
	Name    string
	Files   map[string]string
	Args    []string
	WantErr []string // non-empty: the command must fail and stderr must contain one of these
	Census  []string // for print: strings that must each occur exactly once in stdout
}

func trxAt(date, desc string) string {
	return jr.T(date, desc, jr.B(accChecking, accFood, "1", "CHF")).Render()
}

func opensText() string { return jr.RenderAll(opensPrefix()) }

func loaderScenarios() []scenario {
	a, b := trxAt("2020-01-30", "in a"), trxAt("2020-01-31", "in b")
	root := opensText() + trxAt("2020-01-29", "in root")
	census := []string{`"in root"`, `"in a"`, `"in b"`}
	var ss []scenario
	flat := map[string]string{"root.knut": "include \"a.knut\"\ninclude \"b.knut\"\n" + root, "a.knut": a, "b.knut": b}
	chain := map[string]string{"root.knut": "include \"a.knut\"\n" + root, "a.knut": "include \"b.knut\"\n" + a, "b.knut": b}
	sub := map[string]string{"root.knut": "include \"sub/a.knut\"\n" + root, "sub/a.knut": "include \"../b.knut\"\n" + a, "b.knut": b}
	for name, files := range map[string]map[string]string{"flat": flat, "chain": chain, "subdir": sub} {
		ss = append(ss, scenario{Name: "load-" + name + "-print", Files: files, Args: []string{"print", "root.knut"}, Census: census})
	}
	ss = append(ss, scenario{Name: "load-flat-check", Files: flat, Args: []string{"check", "root.knut"}})
	// errors planted in each file position
	type plant struct{ kind, text, want string }
	plants := []plant{
		{"parse", "2020-02-01 opn Assets:X\n", "unexpected"},
		{"model", "2020-02-01 open Foo:Bar\n", "invalid account type"},
		{"missing", "include \"nope.knut\"\n", "no such file"},
	}
	for _, shape := range []struct {
		name  string
		files map[string]string
	}{{"flat", flat}, {"chain", chain}} {
		for _, pos := range []string{"root.knut", "a.knut", "b.knut"} {
			for _, pl := range plants {
				fs := map[string]string{}
				for k, v := range shape.files {
					fs[k] = v
				}
				fs[pos] = fs[pos] + pl.text
				ss = append(ss, scenario{Name: fmt.Sprintf("load-%s-%s-in-%s", shape.name, pl.kind, strings.TrimSuffix(pos, ".knut")), Files: fs,
					Args: []string{"print", "root.knut"}, WantErr: []string{pl.want}})
			}
		}
	}
	// scale scenario: a wide include tree whose mid-level files include a leaf each
	// (resource limits in the loader only bite when many files are in flight)
	wide := map[string]string{}
	var rootInc strings.Builder
	var wideCensus []string
	for i := 0; i < 70; i++ {
		fmt.Fprintf(&rootInc, "include \"m%02d.knut\"\n", i)
		wide[fmt.Sprintf("m%02d.knut", i)] = trxAt("2020-01-30", fmt.Sprintf("mid %02d", i)) + fmt.Sprintf("include \"l%02d.knut\"\n", i)
		wide[fmt.Sprintf("l%02d.knut", i)] = trxAt("2020-01-31", fmt.Sprintf("leaf %02d", i))
		wideCensus = append(wideCensus, fmt.Sprintf(`"mid %02d"`, i), fmt.Sprintf(`"leaf %02d"`, i))
	}
	wide["root.knut"] = rootInc.String() + root
	ss = append(ss, scenario{Name: "load-wide-141-files-print", Files: wide, Args: []string{"print", "root.knut"}, Census: wideCensus})
	// a file reached over two paths four levels down (q includes x and p, x includes p too):
	// not a cycle (p is part of the journal once); and a file that includes itself twice (two
	// goroutines report the cycle at the same time)
	deep := map[string]string{
		"root.knut": "include \"y.knut\"\n" + root, "y.knut": "include \"q.knut\"\n" + a,
		"q.knut": "include \"x.knut\"\ninclude \"p.knut\"\n" + b, "x.knut": "2020-01-03 price EUR 1.1 CHF\ninclude \"p.knut\"\n",
		"p.knut": "2020-01-02 price USD 0.9 CHF\n",
	}
	ss = append(ss, scenario{Name: "load-deep-diamond-check", Files: deep, Args: []string{"check", "root.knut"}})
	ss = append(ss, scenario{Name: "load-double-cycle-at-depth-3", Files: map[string]string{"root.knut": "include \"a.knut\"\n" + root, "a.knut": "include \"b.knut\"\n" + a,
		"b.knut": "include \"root.knut\"\ninclude \"root.knut\"\n" + b},
		Args: []string{"check", "root.knut"}, WantErr: []string{"include cycle"}})
	// a file included from two files: its directives are part of the journal once
	ss = append(ss, scenario{Name: "load-diamond-print", Files: map[string]string{"root.knut": "include \"a.knut\"\ninclude \"b.knut\"\n" + root,
		"a.knut": "include \"c.knut\"\n" + a, "b.knut": "include \"c.knut\"\n" + b, "c.knut": trxAt("2020-02-01", "in c")},
		Args: []string{"print", "root.knut"}, Census: append(append([]string(nil), census...), `"in c"`)})
	// b and c include each other and are both included from the root: whichever of them is
	// loaded first, the cycle has to be reported
	ss = append(ss, scenario{Name: "load-cycle-between-siblings", Files: map[string]string{"root.knut": "include \"a.knut\"\ninclude \"b.knut\"\n" + root,
		"a.knut": "include \"b.knut\"\n" + a, "b.knut": "include \"a.knut\"\n" + b},
		Args: []string{"check", "root.knut"}, WantErr: []string{"include cycle"}})
	// accrual transactions in two included files (expanded by the per-file conversion goroutines)
	acr := func(desc string) string {
		return jr.Dir{Kind: jr.Trx, Date: "2020-01-30", Desc: desc, Books: []jr.Booking{jr.B(accChecking, accRent, "90", "CHF")},
			Accrue: &jr.Accrual{Interval: "monthly", Start: "2020-01-01", End: "2020-03-31", Acc: accSavings}}.Render()
	}
	ss = append(ss, scenario{Name: "load-accruals-in-two-files", Files: map[string]string{"root.knut": flat["root.knut"], "a.knut": a + acr("acc a") + acr("acc a2"), "b.knut": b + acr("acc b") + acr("acc b2")},
		Args: []string{"print", "root.knut"}, Census: []string{`"in root"`, `"in a"`, `"in b"`, `"acc a (accrual 1/3)"`, `"acc b2 (accrual 3/3)"`}})
	// two different errors in two files: either may win
	fs := map[string]string{"root.knut": flat["root.knut"], "a.knut": a + plants[0].text, "b.knut": b + plants[1].text}
	ss = append(ss, scenario{Name: "load-flat-two-errors", Files: fs, Args: []string{"check", "root.knut"}, WantErr: []string{plants[0].want, plants[1].want}})
	return ss
}

func pipelineScenarios(full bool) []scenario {
	days := []string{"2020-01-30", "2020-01-31", "2020-02-29"}
	var body []jr.Dir
	for i, d := range days {
		body = append(body, jr.P(d, "USD", []string{"0.9", "0.95", "0.92"}[i], "CHF"))
		body = append(body, jr.T(d, "buy", jr.B(accOpening, accCash, "10", "USD")))
		body = append(body, jr.T(d, "food", jr.B(accChecking, accFood, "1.5", "CHF")))
	}
	ok := jr.RenderAll(append(opensPrefix(), body...))
	cmds := [][]string{
		{"check"}, {"print"}, {"transcode", "-v", "CHF"}, {"balance", "--color=false"}, {"balance", "--color=false", "-v", "CHF", "--months"},
		{"balance", "--color=false", "-m", "1:1,Assets", "--remap", "Liabilities", "--days"},
		{"balance", "--color=false", "-v", "CHF", "-m", "1:2,Assets", "-m", "1:1,Liabilities"},
		{"portfolio", "returns", "-v", "CHF", "--days"}, {"portfolio", "weights", "-v", "CHF", "--color=false", "--days"},
		// two stages of one pipeline evaluate the same --account / --commodity filters
		{"portfolio", "returns", "-v", "CHF", "--account", "Portfolio|Bank", "--commodity", "USD|CHF", "--days"},
		// valuation and --remap both look up counterpart accounts in the registry, from different stages
		{"balance", "--color=false", "-v", "CHF", "--remap", "Assets|Income|Expenses", "--days"},
	}
	if !full {
		// the quick tier drops --days (same processors, fewer registry lookups per day)
		for i := range cmds {
			var c []string
			for _, a := range cmds[i] {
				if a != "--days" {
					c = append(c, a)
				}
			}
			cmds[i] = c
		}
	}
	var ss []scenario
	for _, c := range cmds {
		ss = append(ss, scenario{Name: "pipe-" + strings.Join(c, "_"), Files: map[string]string{"j.knut": ok}, Args: append(append([]string(nil), c...), "j.knut")})
	}
	// a stage failing on day 1 / 2 / 3
	for i, d := range days {
		bad := ok + jr.A(d, jr.Bal{Acc: accChecking, Qty: "42", Com: "CHF"}).Render()
		for _, c := range [][]string{{"check"}, {"balance", "--color=false", "-v", "CHF"}, {"portfolio", "returns", "-v", "CHF"}} {
			ss = append(ss, scenario{Name: fmt.Sprintf("pipe-fail-assertion-day%d-%s", i+1, c[0]), Files: map[string]string{"j.knut": bad},
				Args: append(append([]string(nil), c...), "j.knut"), WantErr: []string{"failed assertion"}})
		}
	}
	// valuation fails on day 2 (EUR has no price) while the check stage would fail on day 3
	noPrice := ok + jr.T(days[1], "eur", jr.B(accOpening, accBaenk, "5", "EUR")).Render() + jr.A(days[2], jr.Bal{Acc: accChecking, Qty: "42", Com: "CHF"}).Render()
	ss = append(ss, scenario{Name: "pipe-fail-price-day2-and-assertion-day3", Files: map[string]string{"j.knut": noPrice},
		Args: []string{"balance", "--color=false", "-v", "CHF", "j.knut"}, WantErr: []string{"no price found", "failed assertion"}})
	// print of a journal whose days hold their transactions in descending order (print has to sort them)
	var rev []jr.Dir
	for i := len(body) - 1; i >= 0; i-- {
		rev = append(rev, body[i])
	}
	for _, d := range days {
		for _, desc := range []string{"zz", "mm", "aa"} {
			rev = append(rev, jr.T(d, desc, jr.B(accChecking, accFood, "2", "CHF")))
		}
	}
	ss = append(ss, scenario{Name: "pipe-print-unsorted", Files: map[string]string{"j.knut": jr.RenderAll(append(opensPrefix(), rev...))}, Args: []string{"print", "j.knut"}})
	// an accrual spread over four month ends, valued at a price that changes between
	// the instalments (the instalment transactions are generated, not parsed)
	acc := append(append([]jr.Dir(nil), body...), jr.P("2020-03-31", "USD", "0.97", "CHF"), jr.P("2020-04-30", "USD", "0.99", "CHF"),
		jr.Dir{Kind: jr.Trx, Date: days[0], Desc: "accrued", Books: []jr.Booking{jr.B(accChecking, accRent, "90", "USD")},
			Accrue: &jr.Accrual{Interval: "monthly", Start: "2020-01-01", End: "2020-04-30", Acc: accSavings}})
	accText := jr.RenderAll(append(opensPrefix(), acc...))
	for _, c := range [][]string{{"balance", "--color=false", "-v", "CHF", "--months"}, {"transcode", "-v", "CHF"}} {
		ss = append(ss, scenario{Name: "pipe-accrual-" + strings.Join(c, "_"), Files: map[string]string{"j.knut": accText}, Args: append(append([]string(nil), c...), "j.knut")})
	}
	return ss
}

type c19Case struct {
	Scenario string
	Picks    []int
	Tier     string
}

func allScenarios(full bool) []scenario { return append(loaderScenarios(), pipelineScenarios(full)...) }

func checkOutcome(sc scenario, o, base *core.Outcome) (string, string) {
	if ab := o.Abnormal(); ab != "" {
		kind := "panic"
		if o.Deadlock {
			kind = "deadlock"
		} else if o.Horizon {
			kind = "non-termination"
		}
		return "C19:" + kind, ab
	}
	if len(sc.WantErr) > 0 {
		if o.Exit == 0 {
			return "C19:error-lost", "a stage failed but the command reports success\nstdout:\n" + o.Stdout
		}
		found := false
		for _, w := range sc.WantErr {
			found = found || strings.Contains(o.Stderr, w)
		}
		if !found {
			return "C19:error-not-of-a-failing-stage", fmt.Sprintf("stderr does not carry the error of a failing stage (want one of %q):\n%s", sc.WantErr, o.Stderr)
		}
		if o.Stdout != "" && sc.Args[0] != "portfolio" {
			return "C19:output-on-failure", "stdout not empty:\n" + o.Stdout
		}
		return "", ""
	}
	if o.Exit != 0 {
		return "C19:spurious-failure", fmt.Sprintf("exit %d under this schedule: %s", o.Exit, o.Stderr)
	}
	for _, c := range sc.Census {
		if n := strings.Count(o.Stdout, c); n != 1 {
			return "C19:census", fmt.Sprintf("directive %s occurs %d times in the printed journal\n%s", c, n, o.Stdout)
		}
	}
	if base != nil && o.Stdout != base.Stdout {
		return "C19:schedule-dependent-result", "stdout differs from the default schedule\ndefault:\n" + base.Stdout + "\nthis schedule:\n" + o.Stdout
	}
	return "", ""
}

func c19Bounds(e *core.Env) core.Bounds {
	if e.Thorough() {
		return core.Bounds{Preempt: 2, Free: 3, Total: 3}
	}
	return core.Bounds{Preempt: 1, Free: 2, Total: 2}
}

func c19Scenario(e *core.Env, drv *core.Driver, sc scenario, bounds core.Bounds, maxExec int) (string, string, []int, core.ExploreStats, int) {
	drv.Files(sc.Files)
	var key, detail string
	var picks []int
	var base *core.Outcome
	outcomes := map[string]bool{}
	x := core.Explorer{Bounds: bounds, NoMap: true, Cache: true, MaxExec: maxExec, Stop: e.Expired}
	st := x.Explore(func(c *core.Ctx) {
		o := drv.Run(c, sc.Args...)
		if o.Pruned {
			return
		}
		if base == nil {
			base = o
		}
		outcomes[o.Key()] = true
		if k, d := checkOutcome(sc, o, base); k != "" && key == "" {
			key, detail, picks = k, d, c.Picks()
		}
	}, func(c *core.Ctx) bool { return key == "" })
	return key, detail, picks, st, len(outcomes)
}

// registry scenario: goroutines intern colliding names concurrently.
type regOp struct {
	G    int
	Op   string
	Name string
}

func c19Registry(e *core.Env, bounds core.Bounds) {
	progs := [][][]regOp{
		{{{0, "acc", "Assets:A:B"}}, {{1, "acc", "Assets:A:B"}}},
		{{{0, "acc", "Assets:A:B"}, {0, "acc", "Assets:A"}}, {{1, "acc", "Assets:A:C"}, {1, "acc", "Assets:A:B"}}},
		{{{0, "acc", "Assets:A"}}, {{1, "swap", "Assets:A"}}, {{2, "swap", "Assets:A"}}},
		{{{0, "com", "USD"}, {0, "tag", "USD"}}, {{1, "com", "USD"}}, {{2, "com", "CHF"}, {2, "com", "USD"}}},
		{{{0, "path", "Expenses:X:Y"}}, {{1, "acc", "Expenses:X:Y"}}, {{2, "acc", "Expenses:X"}}},
	}
	for pi, prog := range progs {
		if !e.Take() {
			continue
		}
		var key, detail string
		var picks []int
		x := core.Explorer{Bounds: core.Bounds{Preempt: bounds.Preempt + 1, Free: -1}, NoMap: true, Cache: true, MaxExec: 400000, Stop: e.Expired}
		st := x.Explore(func(c *core.Ctx) {
			type ev struct {
				op      regOp
				call    int64
				ret     int64
				ptr     string
				errored bool
			}
			var events []ev
			var clock int64
			var reg *registry.Registry
			res := vsched.Run(c, vsched.Options{}, func() {
				reg = registry.New()
				done := vsched.NewChan[int](0)
				for _, thread := range prog {
					thread := thread
					vsched.Go(func() {
						for _, op := range thread {
							clock++
							call := clock
							var ptr string
							var err error
							switch op.Op {
							case "acc":
								a, e2 := reg.Accounts().Get(op.Name)
								ptr, err = fmt.Sprintf("%p", a), e2
							case "path":
								a, e2 := reg.Accounts().GetPath(strings.Split(op.Name, ":"))
								ptr, err = fmt.Sprintf("%p", a), e2
							case "swap":
								a := reg.Accounts().MustGet(op.Name)
								sw := reg.Accounts().SwapType(a)
								ptr = fmt.Sprintf("%p:%s", sw, sw.Name())
							case "com":
								cm, e2 := reg.Commodities().Get(op.Name)
								ptr, err = fmt.Sprintf("%p", cm), e2
							case "tag":
								err = reg.Commodities().TagCurrency(op.Name)
							}
							clock++
							events = append(events, ev{op, call, clock, ptr, err != nil})
						}
						done.Send(1)
					})
				}
				for range prog {
					done.Recv()
				}
			})
			if res.Pruned {
				return
			}
			if res.Deadlock || res.Horizon || res.Crash != "" || res.MainPanic != nil {
				if key == "" {
					key, detail, picks = "C19:registry-abnormal", fmt.Sprintf("deadlock=%v horizon=%v crash=%s panic=%v blocked=%v", res.Deadlock, res.Horizon, res.Crash, res.MainPanic, res.Blocked), c.Picks()
				}
				return
			}
			// linearizability against an interning map: a name maps to one pointer forever
			var ops []porcupine.Operation
			for i, ev := range events {
				if ev.op.Op == "tag" {
					continue
				}
				ops = append(ops, porcupine.Operation{ClientId: ev.op.G, Input: ev.op.Op + "|" + ev.op.Name, Call: ev.call, Output: ev.ptr, Return: ev.ret})
				_ = i
			}
			model := porcupine.Model{
				Init: func() interface{} { return "" },
				Step: func(state, input, output interface{}) (bool, interface{}) {
					st := state.(string)
					k := input.(string)
					if strings.HasPrefix(k, "path|") {
						k = "acc|" + strings.TrimPrefix(k, "path|")
					}
					entry := "\n" + k + "=" + output.(string)
					if i := strings.Index(st, "\n"+k+"="); i >= 0 {
						return strings.Contains(st, entry+"\n") || strings.HasSuffix(st, entry), st
					}
					return true, st + entry
				},
				Equal: func(a, b interface{}) bool { return a.(string) == b.(string) },
			}
			if !porcupine.CheckOperations(model, ops) && key == "" {
				key, detail, picks = "C19:registry-not-linearizable", fmt.Sprintf("history %v is not linearizable against an interning map", events), c.Picks()
			}
			// the final sequential lookup must return the same pointers
			for _, ev := range events {
				if ev.op.Op == "acc" || ev.op.Op == "path" {
					if a, _ := reg.Accounts().Get(ev.op.Name); fmt.Sprintf("%p", a) != ev.ptr && key == "" {
						key, detail, picks = "C19:registry-duplicate-account", fmt.Sprintf("%s interned twice", ev.op.Name), c.Picks()
					}
				}
				if ev.op.Op == "com" {
					if cm, _ := reg.Commodities().Get(ev.op.Name); fmt.Sprintf("%p", cm) != ev.ptr && key == "" {
						key, detail, picks = "C19:registry-duplicate-commodity", fmt.Sprintf("%s interned twice", ev.op.Name), c.Picks()
					}
				}
			}
		}, func(c *core.Ctx) bool { return key == "" })
		e.AddStats(st)
		e.Add("evaluations", st.Executions)
		e.Add("registry_histories_checked", st.Executions-st.Pruned)
		e.Count("distinct_nontrivial")
		e.SetBound(fmt.Sprintf("registry_prog%d_deviations", pi), st.BoundCompleted)
		if key != "" {
			e.Violation(key, detail, c19Case{Scenario: fmt.Sprintf("registry-%d", pi), Picks: picks, Tier: e.Tier}, nil)
		}
	}
}

func c19Run(e *core.Env) {
	drv := e.Driver()
	bounds := c19Bounds(e)
	scs := allScenarios(e.Thorough())
	sort.Slice(scs, func(i, j int) bool { return scs[i].Name < scs[j].Name })
	e.Note("%d command scenarios, bounds %v, happens-before state caching on", len(scs), bounds)
	for _, sc := range scs {
		if !e.Take() {
			continue
		}
		maxExec := core.Pick(e, 200000, 1500000)
		scBounds := bounds
		if strings.Contains(sc.Name, "-wide-") {
			// hundreds of goroutines: the default schedule (quick) plus every single deviation (thorough)
			scBounds = core.Pick(e, core.Bounds{Preempt: 0, Free: 0}, core.Bounds{Preempt: 1, Free: 1, Total: 1})
			maxExec = core.Pick(e, 10, 30000)
			drv.Horizon = 200000
		} else {
			drv.Horizon = 0
		}
		key, detail, picks, st, nout := c19Scenario(e, drv, sc, scBounds, maxExec)
		e.AddStats(st)
		e.Add("evaluations", st.Executions)
		if st.Executions > 1 {
			e.Count("distinct_nontrivial")
		}
		e.Add("distinct_outcomes_total", nout)
		e.SetBound("deviations_"+sc.Name, st.BoundCompleted)
		if os.Getenv("KMC_VERBOSE") != "" {
			e.Note("%s: exec=%d pruned=%d cached=%d depth=%d completed=%d capped=%v", sc.Name, st.Executions, st.Pruned, st.CachedStates, st.MaxDepth, st.BoundCompleted, st.Capped)
		}
		if e.Thorough() && key == "" && !strings.Contains(sc.Name, "-wide-") && st.MaxDepth < 140 {
			// second pass: the COMPLETE space of non-preemptive schedules (forced switches,
			// select cases and rendezvous partners unbounded), finite thanks to state caching
			k2, d2, p2, st2, _ := c19Scenario(e, drv, sc, core.Bounds{Preempt: 0, Free: -1}, 900000)
			e.AddStats(st2)
			e.Add("evaluations", st2.Executions)
			if !st2.Capped {
				e.Count("scenarios_with_complete_nonpreemptive_space")
			}
			if k2 != "" {
				key, detail, picks = k2, d2, p2
			}
		}
		e.Sample(map[string]any{"scenario": sc.Name, "args": sc.Args, "executions": st.Executions, "pruned_at_explored_state": st.Pruned, "hb_states_cached": st.CachedStates, "max_choice_depth": st.MaxDepth})
		if key != "" {
			cs := c19Case{Scenario: sc.Name, Picks: picks, Tier: e.Tier}
			e.Violation(key+":"+scenarioClass(sc.Name), detail+"\nscenario: "+sc.Name+"\nargs: "+strings.Join(sc.Args, " ")+"\nschedule picks: "+fmt.Sprint(picks), cs, func() bool {
				drv.Files(sc.Files)
				o := drv.Run(core.NewReplayCtxNoMap(picks, false), sc.Args...)
				k, _ := checkOutcome(sc, o, nil)
				return k == key || (key == "C19:schedule-dependent-result" && k == "")
			})
		}
	}
	c19Registry(e, bounds)
	runLitmus(e)
	if e.Take() {
		raceTier(e, core.Pick(e, 6, 40), "C19", "")
	}
}

func scenarioClass(name string) string {
	parts := strings.SplitN(name, "-", 3)
	if len(parts) >= 2 {
		return parts[0] + "-" + parts[1]
	}
	return name
}

func c19Replay(e *core.Env, data json.RawMessage) (bool, string) {
	var cs c19Case
	if err := json.Unmarshal(data, &cs); err != nil {
		return false, err.Error()
	}
	for _, sc := range allScenarios(cs.Tier == "thorough") {
		if sc.Name != cs.Scenario {
			continue
		}
		drv := e.Driver()
		drv.Files(sc.Files)
		base := drv.Run(nil, sc.Args...)
		drv.TraceOps = true
		o := drv.Run(core.NewReplayCtxNoMap(cs.Picks, true), sc.Args...)
		k, d := checkOutcome(sc, o, base)
		return k != "", k + "\n" + d + "\noperation log:\n" + strings.Join(o.Trace, "\n")
	}
	return false, "scenario not found (registry scenarios are re-explored by the check itself)"
}

func init() {
	core.Register(&core.Check{
		ID: "C19", Level: "model_checking", Run: c19Run, Replay: c19Replay,
		Added:       "valued accrual pipeline, print of unsorted days, valuation + --remap, deep diamond, double cycle three levels down, diamond (census once), accruals in two files; vsync.RWMutex with writer preference (litmus L10); race-only scenarios (700-row reports, 700-transaction infer, 5000-booking file)",
		QuickBudget: 180 * time.Second, ThoroughBudget: 14 * time.Minute,
		Rule: "scenarios: loader on include trees of 3 files (flat, chain, sub-directory; parse error / model error / missing file planted in each file; two errors), every command's processor pipeline on a 3-day journal (check, print, transcode, balance x3, portfolio returns/weights; a stage failing on day 1/2/3; two stages failing), registry programs of 2-3 goroutines on colliding names; " +
			"for each scenario ALL schedules within the deviation bounds are executed on the real code under the cooperative scheduler (states = choice-tree nodes, transitions = edges), with happens-before state caching; non-trivial = scenarios with more than one schedule",
		Assumptions: []string{"sequential consistency at synchronisation-point granularity; data races are the subject of the separate race tier (see DESIGN 3.9)",
			"vsched/vsync and the conc/errgroup shims model the real primitives (litmus conformance in DESIGN 3.3)",
			"happens-before state caching assumes data-race freedom between synchronisation points"},
	})
}
