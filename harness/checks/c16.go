package checks

import (
	"encoding/json"
	"fmt"
	"math/big"
	"regexp"
	"sort"
	"strconv"
	"strings"
	"time"

	"kmc/core"
	"kmc/jr"
	"kmc/ref"
)

// C16 — transcode emits a balanced, self-consistent beancount ledger.

type bcPosting struct {
	Acc string
	Amt *big.Rat
	Com string
}

type bcEntry struct {
	Kind  string // open, close, trx
	Date  string
	Acc   string
	Desc  string
	Posts []bcPosting
}

var (
	reBcOpen = regexp.MustCompile(`^(\d{4}-\d{2}-\d{2}) (open|close) (\S+)$`)
	reBcTrx  = regexp.MustCompile(`^(\d{4}-\d{2}-\d{2}) \* "((?s).*)"$`)
	reBcPost = regexp.MustCompile(`^  (\S+) (-?[0-9.]+) (\S+)$`)
)

// readBeancount reads the subset of beancount that transcode emits.
func readBeancount(s string) (option string, es []bcEntry, err error) {
	lines := strings.Split(s, "\n")
	for i := 0; i < len(lines); i++ {
		l := lines[i]
		switch {
		case l == "":
		case strings.HasPrefix(l, "option "):
			option = l
		case reBcOpen.MatchString(l):
			m := reBcOpen.FindStringSubmatch(l)
			es = append(es, bcEntry{Kind: m[2], Date: m[1], Acc: m[3]})
		case strings.HasPrefix(l, "  ") && len(es) > 0 && es[len(es)-1].Kind == "trx":
			m := reBcPost.FindStringSubmatch(l)
			if m == nil {
				return option, es, fmt.Errorf("line %d: malformed posting %q", i+1, l)
			}
			amt, ok := new(big.Rat).SetString(m[2])
			if !ok {
				return option, es, fmt.Errorf("line %d: bad amount %q", i+1, m[2])
			}
			e := &es[len(es)-1]
			e.Posts = append(e.Posts, bcPosting{m[1], amt, m[3]})
		default:
			// transaction header, possibly with a multi-line description
			hdr := l
			for !reBcTrx.MatchString(hdr) && i+1 < len(lines) && len(hdr) < 500 {
				i++
				hdr += "\n" + lines[i]
			}
			m := reBcTrx.FindStringSubmatch(hdr)
			if m == nil {
				return option, es, fmt.Errorf("line %d: unrecognised line %q", i+1, l)
			}
			es = append(es, bcEntry{Kind: "trx", Date: m[1], Desc: m[2]})
		}
	}
	return option, es, nil
}

type expTrx struct {
	Date, Desc string
	// signed value per account (exact product, before truncation) and tolerance
	Vals map[string]*big.Rat
	N    int
}

// expectedValued computes the valued transactions: user bookings at booking-day prices
// and one adjustment per (journal day, position) whose price changed.
func expectedValued(l *ref.Ledger, V string) ([]expTrx, bool) {
	var res []expTrx
	ambiguous := false
	byTrx := map[int]*expTrx{}
	var order []int
	for _, p := range l.Postings {
		t := byTrx[p.Trx]
		if t == nil {
			t = &expTrx{Date: ref.ISO(p.Date), Desc: p.Desc, Vals: map[string]*big.Rat{}}
			byTrx[p.Trx] = t
			order = append(order, p.Trx)
		}
		pr, ok, amb := l.PriceOn(p.Date, V, p.Com)
		if !ok {
			continue
		}
		ambiguous = ambiguous || amb
		if t.Vals[p.Acc] == nil {
			t.Vals[p.Acc] = new(big.Rat)
		}
		t.Vals[p.Acc].Add(t.Vals[p.Acc], ref.Mul(p.Qty, pr))
		t.N++
	}
	for _, i := range order {
		res = append(res, *byTrx[i])
	}
	// adjustments
	days := l.JournalDays()
	type pos struct{ acc, com string }
	qty := map[pos]*big.Rat{}
	var prev time.Time
	for di, d := range days {
		if di > 0 {
			var keys []pos
			for k := range qty {
				keys = append(keys, k)
			}
			sort.Slice(keys, func(i, j int) bool { return keys[i].acc+keys[i].com < keys[j].acc+keys[j].com })
			for _, k := range keys {
				q := qty[k]
				if q.Sign() == 0 || k.com == V {
					continue
				}
				p0, ok0, a0 := l.PriceOn(prev, V, k.com)
				p1, ok1, a1 := l.PriceOn(d, V, k.com)
				if !ok0 || !ok1 {
					continue
				}
				ambiguous = ambiguous || a0 || a1
				if p0.Cmp(p1) == 0 {
					continue
				}
				gain := ref.Mul(ref.Sub(p1, p0), q)
				res = append(res, expTrx{Date: ref.ISO(d), Desc: fmt.Sprintf("Adjust value of %s in account %s", k.com, k.acc),
					Vals: map[string]*big.Rat{k.acc: gain, ref.ValuationAccount(k.acc): ref.Neg(gain)}, N: 2})
			}
		}
		for _, p := range l.Postings {
			if p.Date.Equal(d) && jr.IsAL(p.Acc) {
				k := pos{p.Acc, p.Com}
				if qty[k] == nil {
					qty[k] = new(big.Rat)
				}
				qty[k].Add(qty[k], p.Qty)
			}
		}
		prev = d
	}
	return res, ambiguous
}

func c16One(drv *core.Driver, body []jr.Dir, V string) (string, string, *core.Outcome) {
	all := append(opensPrefix(), body...)
	l := ref.NewLedger(all)
	drv.Files(map[string]string{"j.knut": jr.RenderAll(all)})
	out := drv.Run(nil, "transcode", "-v", V, "j.knut")
	ctx := func() string {
		return fmt.Sprintf("\ncommand: knut transcode -v %s j.knut\njournal body:\n%s\noutput:\n%s", V, jr.RenderAll(body), out.Stdout)
	}
	if ab := out.Abnormal(); ab != "" {
		return "C16:abnormal", ab + ctx(), out
	}
	if missing, _ := l.MissingPrice(V); missing {
		if out.Exit == 0 {
			return "C16:missing-price-not-reported", ctx(), out
		}
		return "", "failed", out
	}
	if out.Exit != 0 {
		return "C16:unexpected-failure", out.Stderr + ctx(), out
	}
	opt, es, err := readBeancount(out.Stdout)
	if err != nil {
		return "C16:unreadable-output", err.Error() + ctx(), out
	}
	if opt != fmt.Sprintf(`option "operating_currency" "%s"`, V) {
		return "C16:option-line", opt + ctx(), out
	}
	softKey, softDetail := "", ""
	open := map[string]bool{}
	closed := map[string]bool{}
	last := ""
	var trxs []bcEntry
	for _, e := range es {
		if e.Date < last {
			return "C16:not-chronological", fmt.Sprintf("entry dated %s after %s", e.Date, last) + ctx(), out
		}
		last = e.Date
		switch e.Kind {
		case "open":
			open[e.Acc] = true
			delete(closed, e.Acc)
		case "close":
			closed[e.Acc] = true
		case "trx":
			sum := new(big.Rat)
			for _, p := range e.Posts {
				if p.Com != V {
					return "C16:posting-not-in-valuation-commodity", fmt.Sprintf("%s %s", p.Acc, p.Com) + ctx(), out
				}
				sum.Add(sum, p.Amt)
				if closed[p.Acc] {
					return "C16:account-used-after-close", fmt.Sprintf("%s used on %s after its close", p.Acc, e.Date) + ctx(), out
				}
				if !open[p.Acc] {
					kind := "user-account"
					if strings.HasPrefix(e.Desc, "Adjust value of") && strings.HasPrefix(p.Acc, "Income:") {
						kind = "valuation-account"
					}
					msg := fmt.Sprintf("%s is used on %s (%q) but has no open directive on or before that date", p.Acc, e.Date, e.Desc) + ctx()
					if kind == "user-account" {
						return "C16:account-used-without-open:" + kind, msg, out
					}
					// recorded, but the remaining checks still run on this ledger
					if softKey == "" {
						softKey, softDetail = "C16:account-used-without-open:"+kind, msg
					}
				}
			}
			if sum.Sign() != 0 {
				return "C16:transaction-does-not-balance", fmt.Sprintf("%s %q sums to %s", e.Date, e.Desc, ref.Str(sum)) + ctx(), out
			}
			trxs = append(trxs, e)
		}
	}
	exp, amb := expectedValued(l, V)
	if amb {
		if softKey != "" {
			return softKey, softDetail, out
		}
		return "", "ambiguous", out
	}
	// match emitted transactions against the expected multiset
	used := make([]bool, len(trxs))
	for _, x := range exp {
		zero := true
		for _, v := range x.Vals {
			zero = zero && v.Sign() == 0
		}
		found := false
		for i, t := range trxs {
			if used[i] || t.Date != x.Date || t.Desc != x.Desc {
				continue
			}
			got := map[string]*big.Rat{}
			for _, p := range t.Posts {
				if got[p.Acc] == nil {
					got[p.Acc] = new(big.Rat)
				}
				got[p.Acc].Add(got[p.Acc], p.Amt)
			}
			ok := true
			tol := ref.Mul(big.NewRat(int64(x.N+1), 1), big.NewRat(1, 100000000))
			for acc, v := range x.Vals {
				g := got[acc]
				if g == nil {
					g = new(big.Rat)
				}
				ok = ok && ref.Within(g, v, tol)
			}
			for acc, g := range got {
				if _, known := x.Vals[acc]; !known && g.Sign() != 0 {
					ok = false
				}
			}
			if ok {
				used[i], found = true, true
				break
			}
		}
		if !found && !zero {
			kind := "user-transaction"
			if strings.HasPrefix(x.Desc, "Adjust value of") {
				kind = "adjustment"
			}
			var vs []string
			for a, v := range x.Vals {
				vs = append(vs, a+"="+ref.Str(v))
			}
			sort.Strings(vs)
			return "C16:transaction-missing:" + kind, fmt.Sprintf("expected %s %q %v is not in the output", x.Date, x.Desc, vs) + ctx(), out
		}
	}
	for i, t := range trxs {
		if !used[i] {
			allZero := true
			for _, p := range t.Posts {
				allZero = allZero && p.Amt.Sign() == 0
			}
			if allZero {
				continue
			}
			return "C16:transaction-unexpected", fmt.Sprintf("%s %q is not a valued transaction of the journal (duplicate or invented)", t.Date, t.Desc) + ctx(), out
		}
	}
	return softKey, softDetail, out
}

type c16Case struct {
	Body []jr.Dir
	V    string
}

func c16Run(e *core.Env) {
	e.ReserveTail()
	drv := e.Driver()
	d3 := []string{"2020-01-30", "2020-02-29", "2020-03-31"}
	type plan struct {
		alpha []jr.Dir
		n     int
	}
	mk := func(dates []string) []jr.Dir {
		a := c03Alphabet(dates)
		for _, d := range dates {
			// close, late open, and an account that is closed and opened again later
			a = append(a, jr.C(d, accSavings), jr.O(d, "Assets:Later"), jr.T(d, "later", jr.B(accOpening, "Assets:Later", "3", "USD")),
				jr.O(d, accSavings), jr.T(d, "savings", jr.B(accOpening, accSavings, "4", "USD")))
		}
		// an accrual in a foreign commodity: every instalment is valued at the price of its own day
		a = append(a, jr.Dir{Kind: jr.Trx, Date: dates[0], Desc: "accrued usd", Books: []jr.Booking{jr.B(accChecking, accRent, "300", "USD")},
			Accrue: &jr.Accrual{Interval: "monthly", Start: "2020-01-30", End: "2020-03-31", Acc: accSavings}})
		return a
	}
	plans := []plan{{mk(d3), 2}, {mk(d3[:2]), 3}}
	if e.Thorough() {
		plans = []plan{{mk(d3), 3}}
	}
	for _, pl := range plans {
		e.Note("journal alphabet %d symbols, depth <= %d, valuation in {CHF, USD}", len(pl.alpha), pl.n)
		forEachSeq(e, pl.alpha, pl.n, func(seq []jr.Dir) {
			all := append(opensPrefix(), seq...)
			if ref.NewLedger(seq).SameDayPriceConflict() || !ref.Lifecycle(all).Accept {
				return
			}
			for _, V := range []string{"CHF", "USD"} {
				if !e.Take() {
					continue
				}
				key, detail, out := c16One(drv, seq, V)
				e.Count("evaluations")
				switch detail {
				case "failed":
					e.Count("runs_failing_on_missing_price")
				case "ambiguous":
					e.Count("runs_with_ambiguous_chain_skipped")
				default:
					e.Count("distinct_nontrivial")
				}
				e.Distinct(out.Stdout)
				if e.CaseNo()%20011 == 0 {
					e.Sample(map[string]any{"journal": jr.ShortAll(seq), "valuation": V})
				}
				if key != "" {
					cs := c16Case{cloneDirs(seq), V}
					e.Violation(key, detail, cs, func() bool { k, _, _ := c16One(drv, cs.Body, cs.V); return k == key })
				} else if e.CaseNo()%5003 == 0 {
					b := drv.RunBinary("transcode", "-v", V, "j.knut")
					if b.Exit != out.Exit || b.Stdout != out.Stdout {
						e.EngineError("binary mismatch transcode:\n%s\nvs\n%s", b.Stdout, out.Stdout)
					} else {
						e.Count("traces_validated_against_impl")
					}
				}
			}
		})
		e.SetBound(fmt.Sprintf("journal_depth_alphabet%d", len(pl.alpha)), pl.n)
	}
	e.BeginTail()
	// position life histories (see positionChains)
	chainN := core.Pick(e, 4, 6)
	e.Note("position chains: 7 step kinds, <= %d steps on consecutive days, valuation in {CHF, USD}", chainN)
	positionChains(e, chainN, func(seq []jr.Dir) {
		for _, V := range []string{"CHF", "USD"} {
			if !e.Take() {
				continue
			}
			key, detail, out := c16One(drv, seq, V)
			e.Count("evaluations")
			if detail == "" {
				e.Count("distinct_nontrivial")
			}
			e.Distinct(out.Stdout)
			if key != "" {
				cs := c16Case{cloneDirs(seq), V}
				e.Violation(key, detail, cs, func() bool { k, _, _ := c16One(drv, cs.Body, cs.V); return k == key })
			}
		}
	})
	e.SetBound("position_chain_steps", chainN)
	if e.Take() {
		// a file of 5000 bookings: every booking exactly once in the beancount output (real
		// binary, 1 CPU and all CPUs), and the race detector on the load
		var sc scenario
		for _, s := range raceOnlyScenarios() {
			if s.Name == "big-file-5000-transcode" {
				sc = s
			}
		}
		// (the binary runs use 36 000 bookings, the race detector the 5000 of the scenario)
		const nBig = 36000
		var big strings.Builder
		for i := 0; i < nBig; i++ {
			fmt.Fprintf(&big, "2020-%02d-%02d \"t%05d\"\nAssets:Bank Expenses:Food %d.%02d USD\n\n", 1+(i/3000)%12, 1+i%28, i, 1+i, i%100)
		}
		drv.Files(map[string]string{"root.knut": "2019-12-31 open Assets:Bank\n2019-12-31 open Expenses:Food\n2019-12-31 open Equity:Opening\n2019-12-31 price USD 0.9 CHF\ninclude \"big.knut\"\n", "big.knut": big.String()})
		reDesc := regexp.MustCompile(`"t(\d{5})"`)
		for _, procs := range []string{"1", "", "4", ""} {
			o := drv.RunBinaryProcs(procs, sc.Args...)
			e.Count("evaluations")
			e.Count("large_file_runs")
			if o.Exit != 0 || o.Panic != "" {
				e.Violation("C16:unexpected-failure:large-file", clip(o.Stderr, 1000), c16Case{}, nil)
				break
			}
			seen := make([]int, nBig)
			for _, m := range reDesc.FindAllStringSubmatch(o.Stdout, -1) {
				if k, _ := strconv.Atoi(m[1]); k < nBig {
					seen[k]++
				}
			}
			bad := ""
			for i, n := range seen {
				if n != 1 {
					bad = fmt.Sprintf("booking t%05d appears %d times in the output (GOMAXPROCS=%q)", i, n, procs)
					break
				}
			}
			if bad != "" {
				e.Violation("C16:transaction-set-differs:large-file", bad, c16Case{}, nil)
				break
			}
		}
		drv.Files(sc.Files)
		raceTier(e, core.Pick(e, 2, 6), "C16", "big-file")
	}
	if e.Take() {
		// bookings in a file that two other files include: once in the ledger under every loader schedule
		opens := "2019-12-31 open Assets:Bank\n2019-12-31 open Expenses:Food\n2019-12-31 price USD 0.9 CHF\n"
		files := map[string]string{
			"root.knut":     opens + "include \"y2020.knut\"\ninclude \"y2021.knut\"\n",
			"y2020.knut":    "include \"standing.knut\"\n2020-03-01 \"in 2020\"\nAssets:Bank Expenses:Food 1 USD\n\n",
			"y2021.knut":    "include \"standing.knut\"\n2021-03-01 \"in 2021\"\nAssets:Bank Expenses:Food 2 USD\n\n",
			"standing.knut": "2020-06-01 \"standing order\"\nAssets:Bank Expenses:Food 3 USD\n\n",
		}
		diamondSchedules(e, drv, "C16", "transcode", files, []string{"transcode", "-v", "CHF", "root.knut"}, []string{`"standing order"`, `"in 2020"`, `"in 2021"`}, 1)
	}
}

func c16Replay(e *core.Env, data json.RawMessage) (bool, string) {
	if h, v, d := replayMultiFile(e, data); h {
		return v, d
	}
	var cs c16Case
	if err := json.Unmarshal(data, &cs); err != nil {
		return false, err.Error()
	}
	key, detail, _ := c16One(e.Driver(), cs.Body, cs.V)
	return key != "", key + "\n" + detail
}

func init() {
	core.Register(&core.Check{
		ID: "C16", Level: "model_checking", Run: c16Run, Replay: c16Replay,
		Added:       "re-open of a closed account; position life histories; a 5000-booking file (each booking exactly once, 1 / 4 / all CPUs) + race detector",
		QuickBudget: 100 * time.Second, ThoroughBudget: 14 * time.Minute,
		Rule:        "every accepted journal of <= N directives over the valued alphabet of C03 (positions in USD/AAPL/EUR, sale to zero, liability, income collision, six price declarations) plus close/late open/late booking, x valuation {CHF, USD}; the beancount output is read back line by line: every transaction sums to exactly zero in V, every posting account has an open on or before its first use and is not used after its close, entries are chronological, and the multiset of transactions equals the reference's valued transactions (bookings at booking-day prices + one adjustment per day and position whose price changed) within one 1e-8 truncation per step; non-trivial = runs that produce a ledger",
		Assumptions: []string{"journals whose price graph offers several indirect chains with different values are skipped for the value comparison", "runs that fail on a missing price are outside the property (C03 checks the failure rule)"},
	})
}
