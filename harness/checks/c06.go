package checks

import (
	"encoding/json"
	"fmt"
	"sort"
	"strings"
	"time"

	"kmc/core"
	"kmc/jr"
)

// C06 — output is a function of the input alone: for each tie-rich input every
// schedule and every map iteration order within the deviation bounds (plus two global
// map-order policies) must give the same (stdout, exit status).

type c06Input struct {
	Name  string
	Files map[string]string
	Args  []string
	// BinaryOnly: too large to explore (dozens of map ranges over 40 keys); compared on
	// free runs of the real binary under different CPU counts only
	BinaryOnly bool
}

func c06Inputs() []c06Input {
	var in []c06Input
	opens := opensText()
	// equal-weight siblings, valued and unvalued
	ties := opens + jr.RenderAll([]jr.Dir{
		jr.T("2020-01-30", "a", jr.B(accOpening, accChecking, "10", "CHF")),
		jr.T("2020-01-30", "b", jr.B(accOpening, accSavings, "10", "CHF")),
		jr.T("2020-01-30", "c", jr.B(accChecking, accFood, "3", "CHF")),
		jr.T("2020-01-30", "d", jr.B(accChecking, accRent, "3", "CHF")),
		jr.T("2020-01-31", "e", jr.B(accOpening, accCash, "10", "USD")),
		jr.T("2020-01-31", "f", jr.B(accOpening, accBaenk, "10", "USD")),
		jr.T("2020-01-31", "g", jr.B(accOpening, accBank, "10", "USD")),
		jr.T("2020-01-31", "g", jr.B(accOpening, accChecking, "10", "USD")),
		jr.P("2020-01-30", "USD", "1", "CHF"),
	})
	for _, a := range [][]string{
		{"balance", "--color=false"}, {"balance", "--csv"}, {"balance", "--color=false", "-a"},
		{"balance", "--color=false", "-v", "CHF"}, {"balance", "--color=false", "-v", "CHF", "-m", "2,Assets", "--months"},
		{"portfolio", "weights", "-v", "CHF", "--color=false"}, {"portfolio", "weights", "-v", "CHF", "--csv", "-m", "1,."},
		{"check", "--write"}, {"transcode", "-v", "CHF"}, {"print"},
	} {
		in = append(in, c06Input{Name: "ties-" + strings.Join(a, "_"), Files: map[string]string{"j.knut": ties}, Args: append(append([]string(nil), a...), "j.knut")})
	}
	// direct and indirect price paths, two indirect paths
	prices := opens + jr.RenderAll([]jr.Dir{
		jr.P("2020-01-30", "USD", "0.9", "CHF"), jr.P("2020-01-30", "EUR", "1.1", "CHF"), jr.P("2020-01-30", "USD", "0.5", "EUR"),
		jr.P("2020-01-30", "AAPL", "100", "USD"), jr.P("2020-01-30", "AAPL", "80", "EUR"),
		jr.T("2020-01-31", "buy", jr.B(accOpening, accCash, "10", "AAPL"), jr.B(accOpening, accChecking, "1000", "USD")),
	})
	in = append(in, c06Input{Name: "price-paths", Files: map[string]string{"j.knut": prices}, Args: []string{"balance", "--color=false", "-v", "CHF", "j.knut"}})
	// same-day opens / prices / assertions / closes spread over files
	multi := map[string]string{
		"root.knut": "include \"a.knut\"\ninclude \"b.knut\"\n2020-01-01 open Assets:Root\n2020-01-02 price USD 0.9 CHF\n",
		"a.knut":    "2020-01-01 open Assets:A\n2020-01-01 open Expenses:Food\n2020-01-02 price EUR 1.1 CHF\n2020-01-03 \"t\"\nAssets:A Expenses:Food 1 CHF\n\n2020-01-04 balance Assets:A -1 CHF\n2020-01-05 close Assets:Root\n",
		"b.knut":    "2020-01-01 open Assets:B\n2020-01-02 price AAPL 100 USD\n2020-01-03 \"t\"\nAssets:B Expenses:Food 1 CHF\n\n2020-01-04 balance Assets:B -1 CHF\n",
	}
	for _, a := range [][]string{{"print"}, {"balance", "--color=false", "-v", "CHF"}, {"check", "--write"}, {"transcode", "-v", "CHF"}} {
		in = append(in, c06Input{Name: "multifile-" + strings.Join(a, "_"), Files: multi, Args: append(append([]string(nil), a...), "root.knut")})
	}
	// two prices for one pair on one day in different files; transactions that differ only
	// in their @performance annotation; equal weights over several dates
	samePrice := map[string]string{
		"root.knut": "include \"a.knut\"\ninclude \"b.knut\"\n2020-01-01 open Assets:A\n2020-01-01 open Equity:Opening\n2020-01-02 \"t\"\nEquity:Opening Assets:A 10 USD\n\n",
		"a.knut":    "2020-01-02 price USD 0.9 CHF\n", "b.knut": "2020-01-02 price USD 0.95 CHF\n",
	}
	in = append(in, c06Input{Name: "same-day-prices-balance", Files: samePrice, Args: []string{"balance", "--color=false", "-v", "CHF", "root.knut"}})
	perfTwins := map[string]string{
		"root.knut": "include \"a.knut\"\ninclude \"b.knut\"\n2020-01-01 open Assets:A\n2020-01-01 open Income:Div\n",
		"a.knut":    "@performance(USD)\n2020-01-02 \"div\"\nIncome:Div Assets:A 1 CHF\n\n", "b.knut": "@performance(EUR)\n2020-01-02 \"div\"\nIncome:Div Assets:A 1 CHF\n\n",
	}
	in = append(in, c06Input{Name: "performance-twins-print", Files: perfTwins, Args: []string{"print", "root.knut"}})
	in = append(in, c06Input{Name: "ties-weights-three-dates", Files: map[string]string{"j.knut": ties + jr.RenderAll([]jr.Dir{jr.P("2020-02-01", "USD", "1", "CHF"), jr.P("2020-02-02", "USD", "1", "CHF")})},
		Args: []string{"portfolio", "weights", "-v", "CHF", "--color=false", "--days", "--from", "2020-01-31", "j.knut"}})
	// sibling accounts whose valued totals are exactly equal but made of decimals that are
	// inexact in binary and arrive in different orders (a weight summed in floating point
	// would depend on summation order)
	floatTies := opens + jr.RenderAll([]jr.Dir{
		jr.P("2020-01-01", "USD", "1", "CHF"), jr.P("2020-01-01", "EUR", "1", "CHF"), jr.P("2020-01-01", "AAPL", "1", "CHF"),
		jr.T("2020-01-30", "a", jr.B(accOpening, accChecking, "0.1", "USD"), jr.B(accOpening, accSavings, "0.3", "USD")),
		jr.T("2020-02-28", "b", jr.B(accOpening, accChecking, "0.2", "USD"), jr.B(accOpening, accSavings, "0.2", "USD")),
		jr.T("2020-03-30", "c", jr.B(accOpening, accChecking, "0.3", "USD"), jr.B(accOpening, accSavings, "0.1", "USD")),
		jr.T("2020-03-30", "d", jr.B(accOpening, accFood, "0.1", "USD"), jr.B(accOpening, accFood, "0.2", "EUR"), jr.B(accOpening, accFood, "0.3", "AAPL")),
		jr.T("2020-03-30", "e", jr.B(accOpening, "Expenses:Rent:Flat", "0.3", "USD"), jr.B(accOpening, "Expenses:Rent:Flat", "0.2", "EUR"), jr.B(accOpening, "Expenses:Rent:Flat", "0.1", "AAPL")),
	})
	for _, a := range [][]string{{"balance", "--color=false", "-v", "CHF", "--months", "--diff"}, {"balance", "--color=false", "-v", "CHF"}} {
		in = append(in, c06Input{Name: "float-ties-" + strings.Join(a[3:], "_"), Files: map[string]string{"j.knut": floatTies}, Args: append(append([]string(nil), a...), "j.knut")})
	}
	// portfolio weights of two commodities that are equal in total over three dates but
	// distributed differently (0.1, 0.2, 0.3 against 0.3, 0.2, 0.1)
	crossed := opens + jr.RenderAll([]jr.Dir{
		jr.P("2020-01-01", "USD", "1", "CHF"), jr.P("2020-01-01", "EUR", "1", "CHF"), jr.P("2020-01-01", "AAPL", "1", "CHF"),
		jr.T("2020-01-31", "d1", jr.B(accOpening, accCash, "1", "USD"), jr.B(accOpening, accCash, "3", "EUR"), jr.B(accOpening, accCash, "6", "AAPL")),
		jr.T("2020-02-29", "d2", jr.B(accOpening, accCash, "1", "USD"), jr.B(accCash, accOpening, "1", "EUR")),
		jr.T("2020-03-31", "d3", jr.B(accOpening, accCash, "1", "USD"), jr.B(accCash, accOpening, "1", "EUR")),
	})
	in = append(in, c06Input{Name: "weights-crossed", Files: map[string]string{"j.knut": crossed}, Args: []string{"portfolio", "weights", "-v", "CHF", "--color=false", "--months", "j.knut"}})
	// a file reached over two paths four levels down (part of the journal once, never a cycle)
	deep := map[string]string{
		"root.knut": "include \"y.knut\"\n2020-01-01 open Assets:A\n", "y.knut": "include \"q.knut\"\n2020-01-01 open Expenses:Food\n",
		"q.knut": "include \"x.knut\"\ninclude \"p.knut\"\n2020-01-05 \"t\"\nAssets:A Expenses:Food 1 CHF\n\n", "x.knut": "2020-01-03 price EUR 1.1 CHF\ninclude \"p.knut\"\n",
		"p.knut": "2020-01-02 price USD 0.9 CHF\n",
	}
	in = append(in, c06Input{Name: "deep-diamond-print", Files: deep, Args: []string{"print", "root.knut"}})
	// group weights are sums of member weights; with many digits the last bits of a float
	// sum show (quantities 1, 2, 3, 4 at price 1: Stocks = 10% + 20% + 30%)
	grouped := opens + jr.RenderAll([]jr.Dir{
		jr.P("2020-01-01", "AAA", "1", "CHF"), jr.P("2020-01-01", "BBB", "1", "CHF"), jr.P("2020-01-01", "CCC", "1", "CHF"), jr.P("2020-01-01", "DDD", "1", "CHF"),
		jr.T("2020-01-31", "h", jr.B(accOpening, accCash, "1", "AAA"), jr.B(accOpening, accCash, "2", "BBB"), jr.B(accOpening, accCash, "3", "CCC"), jr.B(accOpening, accCash, "4", "DDD")),
	})
	in = append(in, c06Input{Name: "weights-groups-15-digits", Files: map[string]string{"j.knut": grouped, "u.yaml": "Stocks: [AAA, BBB, CCC]\nBonds: [DDD]\n"},
		Args: []string{"portfolio", "weights", "-v", "CHF", "--universe", "u.yaml", "--digits", "15", "--color=false", "j.knut"}})
	// several commodities collapsed onto one node by -m: their weights are added up
	in = append(in, c06Input{Name: "weights-collapsed-16-digits", Files: map[string]string{"j.knut": grouped, "u.yaml": "Stocks: [AAA, BBB, CCC, DDD]\n"},
		Args: []string{"portfolio", "weights", "-v", "CHF", "--universe", "u.yaml", "-m", "1,.", "--digits", "16", "--color=false", "j.knut"}})
	// returns of three commodities whose values are inexact in binary and whose period
	// returns lie on a rounding boundary of the printed tenth of a percent
	returnsSum := "2020-01-01 open Assets:Bank\n2020-01-01 open Equity:Opening\n2020-01-01 price AAA 0.1 CHF\n2020-01-01 price BBB 0.2 CHF\n2020-01-01 price CCC 0.3 CHF\n\n" +
		"2020-01-02 \"a\"\nEquity:Opening Assets:Bank 1 AAA\n\n2020-01-02 \"b\"\nEquity:Opening Assets:Bank 1 BBB\n\n2020-01-02 \"c\"\nEquity:Opening Assets:Bank 1 CCC\n\n" +
		"2020-01-04 price CCC 0.3015 CHF\n2020-01-05 price CCC 0.3045 CHF\n2020-01-06 price CCC 0.3075 CHF\n2020-01-07 price AAA 0.1015 CHF\n2020-01-08 price BBB 0.2045 CHF\n"
	in = append(in, c06Input{Name: "returns-three-commodities-rounding", Files: map[string]string{"j.knut": returnsSum}, Args: []string{"portfolio", "returns", "-v", "CHF", "--days", "j.knut"}})
	// one file of 40 000 transactions (more than any batch size a loader might use)
	var huge strings.Builder
	for i := 0; i < 40000; i++ {
		fmt.Fprintf(&huge, "2020-%02d-%02d \"t%05d\"\nAssets:Bank Expenses:Food %d.%02d CHF\n\n", 1+(i/3400)%12, 1+i%28, i, 1+i%977, i%100)
	}
	in = append(in, c06Input{Name: "huge-file-balance", Files: map[string]string{"j.knut": "2019-12-31 open Assets:Bank\n2019-12-31 open Expenses:Food\ninclude \"big.knut\"\n", "big.knut": huge.String()},
		Args: []string{"balance", "--color=false", "--months", "j.knut"}, BinaryOnly: true})
	// infer with a large model (40 accounts) in which the candidates are exactly tied
	var bigTrain strings.Builder
	bigTrain.WriteString("2020-01-01 open Assets:Bank\n")
	for i := 0; i < 40; i++ {
		fmt.Fprintf(&bigTrain, "2020-01-02 \"shop\"\nAssets:Bank Expenses:A%02d 50 USD\n\n", i)
	}
	bigTarget := "2020-02-01 \"never seen words\"\nAssets:Bank Expenses:TBD 50 USD\n\n2020-02-02 \"other unseen\"\nAssets:Bank Expenses:TBD 50 USD\n\n"
	in = append(in, c06Input{Name: "infer-ties-40-accounts", Files: map[string]string{"train.knut": bigTrain.String(), "target.knut": bigTarget}, Args: []string{"infer", "-t", "train.knut", "target.knut"}, BinaryOnly: true})
	// infer with two equally likely candidates
	training := "2020-01-01 open Assets:A\n2020-01-02 \"shop\"\nAssets:A Expenses:Food 10 CHF\n\n2020-01-03 \"shop\"\nAssets:A Expenses:Rent 10 CHF\n\n"
	target := "2020-02-01 \"shop\"\nAssets:A Expenses:TBD 10 CHF\n\n2020-02-02 \"other\"\nExpenses:TBD Assets:A 5 CHF\n\n"
	in = append(in, c06Input{Name: "infer-ties", Files: map[string]string{"train.knut": training, "target.knut": target}, Args: []string{"infer", "-t", "train.knut", "target.knut"}})
	// revolut2 statement with two currencies on one day
	rev := "Type,Product,Started Date,Completed Date,Description,Amount,Fee,Currency,State,Balance\n" +
		"CARD_PAYMENT,Current,2020-01-30 10:00:00,2020-01-30 11:00:00,Shop,-10.00,0.00,CHF,COMPLETED,90.00\n" +
		"CARD_PAYMENT,Current,2020-01-30 12:00:00,2020-01-30 13:00:00,Store,-5.00,0.50,EUR,COMPLETED,44.50\n" +
		"TOPUP,Current,2020-01-30 14:00:00,2020-01-30 15:00:00,Topup,20.00,0.00,USD,COMPLETED,20.00\n"
	in = append(in, c06Input{Name: "import-revolut2-two-currencies", Files: map[string]string{"s.csv": rev},
		Args: []string{"import", "revolut2", "-a", "Assets:Revolut", "-f", "Expenses:Fees", "s.csv"}})
	return in
}

type c06Case struct {
	Input  string
	PicksA []int
	PicksB []int
}

func c06Explore(e *core.Env, drv *core.Driver, in c06Input, bounds core.Bounds, maxExec int) (string, string, c06Case, core.ExploreStats, int) {
	drv.Files(in.Files)
	outcomes := map[string][]int{}
	var order []string
	var abnormal, abDetail string
	var abPicks []int
	x := core.Explorer{Bounds: bounds, Cache: true, Policies: true, MaxExec: maxExec, Stop: e.Expired}
	st := x.Explore(func(c *core.Ctx) {
		o := drv.Run(c, in.Args...)
		if o.Pruned {
			return
		}
		if ab := o.Abnormal(); ab != "" && abnormal == "" {
			abnormal, abDetail, abPicks = "C06:abnormal", ab, c.Picks()
		}
		k := o.Key()
		if _, ok := outcomes[k]; !ok {
			outcomes[k] = c.Picks()
			order = append(order, k)
		}
	}, func(c *core.Ctx) bool { return len(outcomes) < 2 && abnormal == "" })
	cs := c06Case{Input: in.Name}
	if abnormal != "" {
		cs.PicksA = abPicks
		return abnormal, abDetail, cs, st, len(outcomes)
	}
	if len(outcomes) > 1 {
		cs.PicksA, cs.PicksB = outcomes[order[0]], outcomes[order[1]]
		c := core.NewReplayCtx(cs.PicksB, true)
		drv.Run(c, in.Args...)
		return "C06:nondeterministic-output", fmt.Sprintf("two executions of `knut %s` on the same files differ\n--- choices of the second execution: %v\n--- output A:\n%s\n--- output B:\n%s",
			strings.Join(in.Args, " "), c.Describe(), order[0], order[1]), cs, st, len(outcomes)
	}
	return "", "", cs, st, len(outcomes)
}

func c06Bounds(e *core.Env) core.Bounds {
	if e.Thorough() {
		return core.Bounds{Preempt: 2, Free: 2, Map: 3, Total: 3}
	}
	return core.Bounds{Preempt: 1, Free: 1, Map: 2, Total: 2}
}

func c06Run(e *core.Env) {
	runLitmus(e)
	drv := e.Driver()
	ins := c06Inputs()
	sort.Slice(ins, func(i, j int) bool { return ins[i].Name < ins[j].Name })
	bounds := c06Bounds(e)
	e.Note("%d inputs, bounds %v + global map-order policies (reverse, rotate)", len(ins), bounds)
	for _, in := range ins {
		if in.BinaryOnly || !e.Take() {
			continue
		}
		key, detail, cs, st, nout := c06Explore(e, drv, in, bounds, core.Pick(e, 150000, 1500000))
		e.AddStats(st)
		e.Add("evaluations", st.Executions)
		if st.Executions > 1 {
			e.Count("distinct_nontrivial")
		}
		e.Add("distinct_outcomes_total", nout)
		e.SetBound("deviations_"+in.Name, st.BoundCompleted)
		e.Sample(map[string]any{"input": in.Name, "args": in.Args, "executions": st.Executions, "choice_points_map": st.PerKind[core.CMap], "choice_points_sched": st.PerKind[core.CSched] + st.PerKind[core.CSwitch], "outcomes": nout})
		if key != "" {
			name := in.Name
			if i := strings.Index(name, "_"); i > 0 {
				name = name[:i]
			}
			e.Violation(key+":"+name, detail, cs, func() bool {
				drv.Files(in.Files)
				a := drv.Run(core.NewReplayCtx(cs.PicksA, false), in.Args...)
				b := drv.Run(core.NewReplayCtx(cs.PicksB, false), in.Args...)
				return key != "C06:nondeterministic-output" || a.Key() != b.Key()
			})
		}
	}
	if e.Take() {
		// free-running repetitions on the real binary: any difference is also a violation
		c06Binary(e, drv, ins)
	}
}

// c06Binary runs the uninstrumented binary repeatedly (the statement's own observation
// point). It cannot show determinism, but every difference it sees is a real one, and
// it validates that explorer-found differences are not artefacts of the overlay.
func c06Binary(e *core.Env, drv *core.Driver, ins []c06Input) {
	reps := core.Pick(e, 12, 60)
	for _, in := range ins {
		drv.Files(in.Files)
		first := ""
		for i := 0; i < reps; i++ {
			// "irrespective of ... the number of CPUs": all CPUs, 1, 2 and 4 in turn
			o := drv.RunBinaryProcs([]string{"", "1", "2", "4"}[i%4], in.Args...)
			k := o.Key()
			e.Count("traces_validated_against_impl")
			if first == "" {
				first = k
			} else if k != first {
				e.Violation("C06:nondeterministic-output:"+strings.SplitN(in.Name, "_", 2)[0]+":binary",
					fmt.Sprintf("two runs of the real binary `knut %s` differ\n--- A:\n%s\n--- B:\n%s", strings.Join(in.Args, " "), first, k), c06Case{Input: in.Name}, nil)
				break
			}
		}
	}
}

func c06Replay(e *core.Env, data json.RawMessage) (bool, string) {
	var cs c06Case
	if err := json.Unmarshal(data, &cs); err != nil {
		return false, err.Error()
	}
	for _, in := range c06Inputs() {
		if in.Name != cs.Input {
			continue
		}
		drv := e.Driver()
		drv.Files(in.Files)
		a := drv.Run(core.NewReplayCtx(cs.PicksA, false), in.Args...)
		b := drv.Run(core.NewReplayCtx(cs.PicksB, false), in.Args...)
		if ab := a.Abnormal() + b.Abnormal(); ab != "" {
			return true, ab
		}
		return a.Key() != b.Key(), fmt.Sprintf("A:\n%s\nB:\n%s", a.Key(), b.Key())
	}
	return false, "input not found"
}

func init() {
	core.Register(&core.Check{
		ID: "C06", Level: "model_checking", Run: c06Run, Replay: c06Replay,
		Added:       "float-tie inputs (balance, weights, group weights with 15 digits), deep-diamond include tree, 40-account infer tie; binary runs alternate GOMAXPROCS over {all, 1, 2, 4}",
		QuickBudget: 200 * time.Second, ThoroughBudget: 14 * time.Minute,
		Rule: "tie-rich inputs (equal-weight sibling accounts valued and unvalued, direct+indirect and two indirect price paths, same-day opens/prices/assertions/closes in three files, equally likely infer candidates, a revolut2 statement with three currencies on one day) x commands (balance text/csv/-a/-v/-m, portfolio weights, check --write, transcode, print, infer, import); " +
			"for each input every execution within the deviation bounds over goroutine schedules AND map iteration orders (explorer-owned) is run, plus two global map-order policies; oracle: exactly one (stdout, exit) outcome; the real binary is also run repeatedly; non-trivial = inputs with more than one execution",
		Assumptions: []string{"map orders inside third-party packages are not explored", "CPU count and timing are covered through the interleavings they induce (sequential consistency)"},
	})
}
