package checks

import (
	"encoding/json"
	"fmt"
	"strings"
	"time"

	"kmc/core"
	"kmc/jr"
	"kmc/ref"
)

// C09 — print emits a normal form that round-trips.

var c09Flags = [][]string{
	{},
	{"--months"},
	{"--months", "--diff"},
	{"-v", "CHF"},
	{"-v", "CHF", "--months"},
	{"--close=false", "-a", "--days", "--last", "2"},
	// a mapping rule with a suffix (the shortened path is assembled from two parts of the account's segments)
	{"-m", "1:1,Checking", "-m", "1:2,Rent"},
}

type c09Case struct{ Body []jr.Dir }

func c09One(drv *core.Driver, body []jr.Dir) (string, string, int) {
	all := append(opensPrefix(), body...)
	text := jr.RenderAll(all)
	ctx := func(extra string) string { return extra + "\njournal body:\n" + jr.RenderAll(body) }
	drv.Files(map[string]string{"j.knut": text})
	runs := 0
	p1 := drv.Run(nil, "print", "j.knut")
	runs++
	if ab := p1.Abnormal(); ab != "" {
		return "C09:abnormal", ctx(ab), runs
	}
	if p1.Exit != 0 {
		return "C09:print-rejects-accepted-journal", ctx(p1.Stderr), runs
	}
	var orig []*core.Outcome
	for _, f := range c09Flags {
		orig = append(orig, drv.Run(nil, append(append([]string{"balance", "--color=false", "--digits", "8"}, f...), "j.knut")...))
		runs++
	}
	drv.Files(map[string]string{"j.knut": text, "p1.knut": p1.Stdout})
	chk := drv.Run(nil, "check", "p1.knut")
	runs++
	if chk.Exit != 0 || chk.Abnormal() != "" {
		return "C09:printed-journal-rejected", ctx("check on the printed journal: " + chk.Stderr + chk.Abnormal() + "\nprinted:\n" + p1.Stdout), runs
	}
	p2 := drv.Run(nil, "print", "p1.knut")
	runs++
	if p2.Exit != 0 || p2.Stdout != p1.Stdout {
		return "C09:print-not-idempotent", ctx("print(print(j)) differs from print(j)\nfirst:\n" + p1.Stdout + "\nsecond:\n" + p2.Stdout + p2.Stderr), runs
	}
	for i, f := range c09Flags {
		o := drv.Run(nil, append(append([]string{"balance", "--color=false", "--digits", "8"}, f...), "p1.knut")...)
		runs++
		if o.Exit != orig[i].Exit || o.Stdout != orig[i].Stdout {
			feat := "unvalued"
			if len(f) > 0 && f[0] == "-v" {
				feat = "valued"
			}
			if hasAccrual(body) {
				feat += ":accrual"
			}
			return "C09:balance-differs:" + feat, ctx(fmt.Sprintf("balance %v on the printed journal differs (exit %d vs %d)\noriginal:\n%s%s\nprinted journal:\n%s%s\nprinted:\n%s",
				f, orig[i].Exit, o.Exit, orig[i].Stdout, orig[i].Stderr, o.Stdout, o.Stderr, p1.Stdout)), runs
		}
	}
	return "", "", runs
}

func c09Alphabet(dates []string) []jr.Dir {
	var a []jr.Dir
	for _, d := range dates {
		a = append(a, trxTemplates(d, true)...)
		a = append(a,
			jr.T(d, "multi\nline  description", jr.B(accChecking, accFood, "12.340", "CHF")),
			jr.A(d, jr.Bal{Acc: accChecking, Qty: "100", Com: "CHF"}),
			jr.A(d, jr.Bal{Acc: accChecking, Qty: "0", Com: "CHF"}),
			jr.A(d, jr.Bal{Acc: accSavings, Qty: "0", Com: "CHF"}, jr.Bal{Acc: accCard, Qty: "0", Com: "USD"}),
			jr.A(d, jr.Bal{Acc: accChecking, Qty: "98.50", Com: "CHF"}, jr.Bal{Acc: accCard, Qty: "0", Com: "USD"}),
			jr.Dir{Kind: jr.Assert, Date: d, MultiLine: true, Bals: []jr.Bal{{Acc: accSavings, Qty: "0", Com: "CHF"}}},
			jr.P(d, "USD", "0.9", "CHF"),
			jr.P(d, "EUR", "1.080", "CHF"),
			jr.P(d, "CHF", "1.2", "USD"), // same pair quoted the other way round, with a spread: the later one of a day wins
			jr.C(d, accSavings),
			jr.O(d, "Assets:Später"),
		)
	}
	return a
}

func c09Run(e *core.Env) {
	e.ReserveTail()
	drv := e.Driver()
	type plan struct {
		alpha []jr.Dir
		n     int
	}
	plans := []plan{{c09Alphabet([]string{"2020-01-31", "2020-03-02"}), 2}, {c09Alphabet([]string{"2020-01-31"}), 3}}
	if e.Thorough() {
		plans = []plan{{c09Alphabet([]string{"2020-01-31", "2020-03-02"}), 3}}
	}
	// same-day twins (same description, same accounts) that differ only in the amount:
	// the order of the day is decided by the amounts alone. The amounts have the same
	// number of decimals but different numbers of significant digits once printed, and
	// coefficients around 2^63 and 2^64.
	var twins []jr.Dir
	for _, q := range []string{"10.000000000000000000", "2.500000000000000000", "9.223372036854775807", "9.223372036854775808", "18.446744073709551616", "1.000000000000000000", "0.500000000000000001", "18446744073709551616", "3"} {
		twins = append(twins, jr.T("2020-01-31", "twin", jr.B(accOpening, accChecking, q, "CHF")))
	}
	plans = append(plans, plan{twins, 3})
	for _, pl := range plans {
		e.Note("journal alphabet %d symbols, depth <= %d", len(pl.alpha), pl.n)
		forEachSeq(e, pl.alpha, pl.n, func(seq []jr.Dir) {
			if !e.Take() {
				return
			}
			all := append(opensPrefix(), seq...)
			if !ref.Lifecycle(all).Accept {
				e.Count("rejected_journals_skipped")
				return
			}
			key, detail, runs := c09One(drv, seq)
			e.Count("evaluations")
			e.Add("command_runs", runs)
			if len(seq) >= 2 {
				e.Count("distinct_nontrivial")
			}
			if e.CaseNo()%4001 == 0 {
				e.Sample(jr.ShortAll(seq))
			}
			e.Distinct(strings.Join(jr.ShortAll(seq), "|"))
			if key != "" {
				cs := c09Case{cloneDirs(seq)}
				e.Violation(key, detail, cs, func() bool {
					k, _, _ := c09One(drv, cs.Body)
					return k == key
				})
			}
		})
		e.SetBound(fmt.Sprintf("journal_depth_alphabet%d", len(pl.alpha)), pl.n)
	}
	e.BeginTail()
	if e.Take() {
		// print sorts each day; whether that is properly ordered with the stages that read
		// the day is decided by the race detector on free-running executions
		raceTier(e, core.Pick(e, 4, 20), "C09", "pipe-")
	}
}

func c09Replay(e *core.Env, data json.RawMessage) (bool, string) {
	var cs c09Case
	if err := json.Unmarshal(data, &cs); err != nil {
		return false, err.Error()
	}
	key, detail, _ := c09One(e.Driver(), cs.Body)
	return key != "", key + "\n" + detail
}

func init() {
	core.Register(&core.Check{
		ID: "C09", Level: "model_checking", Run: c09Run, Replay: c09Replay,
		Added:       "same-day inverse quotes with a spread; race detector on every pipeline scenario (incl. print of unsorted days)",
		QuickBudget: 100 * time.Second, ThoroughBudget: 14 * time.Minute,
		Rule: "every accepted journal of <= N body directives over {12 transaction templates incl. trailing zeros, negative, zero, 8-decimal and large amounts, Unicode, multi-line description, @performance, accrual; one-, two-line and multi-line-form assertions; prices with trailing zeros; close; open of a Unicode account} x dates; " +
			"print -> check, print(print)=print byte for byte, 6 balance flag sets equal on original and printed journal; non-trivial = two or more body directives",
		Assumptions: []string{"journals rejected by the reference lifecycle are skipped (C04 covers the verdict)"},
	})
}
