package ref

import "time"

// Interval mirrors the order of knut's date.Interval (Once .. Yearly).
type Interval int

const (
	Once Interval = iota
	Daily
	Weekly
	Monthly
	Quarterly
	Yearly
)

var IntervalNames = [...]string{"once", "daily", "weekly", "monthly", "quarterly", "yearly"}

// IntervalFlags are the CLI flags selecting an interval ("" for once).
var IntervalFlags = [...]string{"", "--days", "--weeks", "--months", "--quarters", "--years"}

func (iv Interval) String() string { return IntervalNames[iv] }

func ParseIntervalName(s string) Interval {
	for i, n := range IntervalNames {
		if n == s {
			return Interval(i)
		}
	}
	return Once
}

func Day(y int, m time.Month, d int) time.Time { return time.Date(y, m, d, 0, 0, 0, 0, time.UTC) }

func ISO(t time.Time) string {
	if t.IsZero() {
		return "-"
	}
	return t.Format("2006-01-02")
}

func ParseISO(s string) time.Time {
	t, err := time.Parse("2006-01-02", s)
	if err != nil {
		panic(err)
	}
	return t
}

// UnitID identifies the calendar unit containing t (independent of knut's StartOf/EndOf).
func UnitID(t time.Time, iv Interval) int {
	y, m, _ := t.Date()
	switch iv {
	case Daily:
		return int(t.Unix() / 86400)
	case Weekly:
		// 1970-01-01 is a Thursday: shift so that weeks start on Monday
		return int((t.Unix()/86400 + 3 + 7000000) / 7)
	case Monthly:
		return y*12 + int(m) - 1
	case Quarterly:
		return y*4 + (int(m)-1)/3
	case Yearly:
		return y
	}
	return 0
}

type Period struct{ S, E time.Time }

// Partition is the reference: the periods of [s,e] for the interval; last>0 keeps the
// last n periods. Once yields the single period [s,e] (possibly empty).
func Partition(s, e time.Time, iv Interval, last int) []Period {
	if iv == Once {
		return []Period{{s, e}}
	}
	var ps []Period
	for d := s; !d.After(e); d = d.AddDate(0, 0, 1) {
		if n := len(ps); n > 0 && UnitID(ps[n-1].E, iv) == UnitID(d, iv) {
			ps[n-1].E = d
		} else {
			ps = append(ps, Period{d, d})
		}
	}
	if last > 0 && len(ps) > last {
		ps = ps[len(ps)-last:]
	}
	return ps
}
