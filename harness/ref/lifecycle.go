package ref

import (
	"fmt"
	"math/big"
	"sort"

	"kmc/jr"
)

// Lifecycle is the reference acceptance automaton of property C04 (DESIGN A.1/A.2):
// directives by date; within a day prices, opens, transactions, assertions, closes;
// same-kind same-day directives have no specified order.

type pos struct{ acc, com string }

type lcState struct {
	open map[string]bool
	qty  map[pos]*big.Rat
}

func (s *lcState) clone() *lcState {
	c := &lcState{open: map[string]bool{}, qty: map[pos]*big.Rat{}}
	for k, v := range s.open {
		c.open[k] = v
	}
	for k, v := range s.qty {
		c.qty[k] = new(big.Rat).Set(v)
	}
	return c
}

// apply evaluates one directive; it returns an error text if the directive is rejected.
func (s *lcState) apply(d jr.Dir) string {
	switch d.Kind {
	case jr.Open:
		if s.open[d.Acc] {
			return "account already open"
		}
		s.open[d.Acc] = true
	case jr.Trx:
		for _, b := range d.Books {
			for _, leg := range []struct {
				acc  string
				sign int64
			}{{b.Credit, -1}, {b.Debit, 1}} {
				if !s.open[leg.acc] {
					return "account " + leg.acc + " not open"
				}
				if jr.IsAL(leg.acc) {
					k := pos{leg.acc, b.Com}
					if s.qty[k] == nil {
						s.qty[k] = new(big.Rat)
					}
					s.qty[k].Add(s.qty[k], Mul(Q(b.Qty), big.NewRat(leg.sign, 1)))
				}
			}
		}
	case jr.Assert:
		for _, b := range d.Bals {
			if !s.open[b.Acc] {
				return "account " + b.Acc + " not open"
			}
			if !jr.IsAL(b.Acc) {
				continue // outside the statement; not generated
			}
			have := s.qty[pos{b.Acc, b.Com}]
			if have == nil {
				have = new(big.Rat) // zero if it never had one
			}
			if have.Cmp(Q(b.Qty)) != 0 {
				return fmt.Sprintf("assertion %s %s %s fails: have %s", b.Acc, b.Qty, b.Com, Str(have))
			}
		}
	case jr.Close:
		if !s.open[d.Acc] {
			return "account not open"
		}
		for k, v := range s.qty {
			if k.acc == d.Acc && v.Sign() != 0 {
				return "account has non-zero position"
			}
		}
		for k := range s.qty {
			if k.acc == d.Acc {
				delete(s.qty, k)
			}
		}
		delete(s.open, d.Acc)
	}
	return ""
}

// Verdict of the reference.
type Verdict struct {
	Accept     bool
	Candidates []int // indices of directives that may be reported as offending
	Reason     string
}

var kindOrder = map[jr.Kind]int{jr.Price: 0, jr.Open: 1, jr.Trx: 2, jr.Assert: 3, jr.Close: 4}

// Lifecycle decides acceptance of a directive list (includes are ignored).
func Lifecycle(orig []jr.Dir) Verdict {
	// accrual transactions are replaced by the transactions they expand to
	var ds []jr.Dir
	var origIdx []int
	for i, d := range orig {
		if d.Kind == jr.Trx && d.Accrue != nil {
			l := NewLedger([]jr.Dir{d})
			for t := range l.TrxDates {
				nd := jr.Dir{Kind: jr.Trx, Date: ISO(l.TrxDates[t]), Desc: d.Desc}
				for _, p := range l.Postings {
					if p.Trx == t && p.Qty.Sign() >= 0 && (p.Qty.Sign() > 0 || p.Acc != d.Accrue.Acc) {
						nd.Books = append(nd.Books, jr.Booking{Credit: p.Other, Debit: p.Acc, Qty: Str(p.Qty), Com: p.Com})
						break
					}
				}
				if len(nd.Books) == 0 {
					for _, p := range l.Postings {
						if p.Trx == t {
							nd.Books = append(nd.Books, jr.Booking{Credit: p.Other, Debit: p.Acc, Qty: Str(p.Qty), Com: p.Com})
							break
						}
					}
				}
				ds = append(ds, nd)
				origIdx = append(origIdx, i)
			}
			continue
		}
		ds = append(ds, d)
		origIdx = append(origIdx, i)
	}
	v := lifecycle(ds)
	seen := map[int]bool{}
	var cs []int
	for _, c := range v.Candidates {
		if !seen[origIdx[c]] {
			seen[origIdx[c]] = true
			cs = append(cs, origIdx[c])
		}
	}
	v.Candidates = cs
	return v
}

func lifecycle(ds []jr.Dir) Verdict {
	type blockKey struct {
		date string
		kind int
	}
	blocks := map[blockKey][]int{}
	var keys []blockKey
	for i, d := range ds {
		if d.Kind == jr.Include {
			continue
		}
		k := blockKey{d.Date, kindOrder[d.Kind]}
		if _, ok := blocks[k]; !ok {
			keys = append(keys, k)
		}
		blocks[k] = append(blocks[k], i)
	}
	sort.Slice(keys, func(i, j int) bool {
		if keys[i].date != keys[j].date {
			return keys[i].date < keys[j].date
		}
		return keys[i].kind < keys[j].kind
	})
	st := &lcState{open: map[string]bool{}, qty: map[pos]*big.Rat{}}
	for _, k := range keys {
		idx := blocks[k]
		cands := map[int]bool{}
		reason := ""
		perms := permutations(len(idx))
		for _, p := range perms {
			s := st.clone()
			for _, j := range p {
				if msg := s.apply(ds[idx[j]]); msg != "" {
					cands[idx[j]] = true
					reason = msg
					break
				}
			}
		}
		if len(cands) > 0 {
			v := Verdict{Accept: false, Reason: reason}
			for c := range cands {
				v.Candidates = append(v.Candidates, c)
			}
			sort.Ints(v.Candidates)
			return v
		}
		for _, j := range idx {
			st.apply(ds[j])
		}
	}
	return Verdict{Accept: true}
}

func permutations(n int) [][]int {
	if n > 4 {
		id := make([]int, n)
		rev := make([]int, n)
		for i := range id {
			id[i], rev[i] = i, n-1-i
		}
		return [][]int{id, rev}
	}
	var res [][]int
	var rec func(cur []int, used int)
	rec = func(cur []int, used int) {
		if len(cur) == n {
			res = append(res, append([]int(nil), cur...))
			return
		}
		for i := 0; i < n; i++ {
			if used&(1<<i) == 0 {
				rec(append(cur, i), used|1<<i)
			}
		}
	}
	rec(nil, 0)
	return res
}
