package ref

import (
	"fmt"
	"math/big"
	"regexp"
	"sort"
	"strings"
	"time"

	"kmc/jr"
)

// Posting is one signed leg of a booking after accrual expansion.
type Posting struct {
	Date  time.Time
	Acc   string
	Other string
	Com   string
	Qty   *big.Rat
	Trx   int    // index of the generated transaction
	Gen   string // "", "accrual", "closing"
	Desc  string
}

// Ledger is the structured journal after accrual expansion.
type Ledger struct {
	Postings []Posting
	TrxDates []time.Time // one per generated transaction
	Prices   []PriceDecl
	Dirs     []jr.Dir
}

type PriceDecl struct {
	Date     time.Time
	Com, Tgt string
	Price    *big.Rat
	Seq      int
}

// NewLedger expands a directive list (DESIGN A.9 for accruals).
func NewLedger(ds []jr.Dir) *Ledger {
	l := &Ledger{Dirs: ds}
	for i, d := range ds {
		switch d.Kind {
		case jr.Price:
			l.Prices = append(l.Prices, PriceDecl{Date: ParseISO(d.Date), Com: d.Com, Tgt: d.Tgt, Price: Q(d.Price), Seq: i})
		case jr.Trx:
			l.expandTrx(d)
		}
	}
	return l
}

func (l *Ledger) addTrx(date time.Time, desc, credit, debit, com string, q *big.Rat, gen string) {
	t := len(l.TrxDates)
	l.TrxDates = append(l.TrxDates, date)
	l.Postings = append(l.Postings,
		Posting{Date: date, Acc: credit, Other: debit, Com: com, Qty: Neg(q), Trx: t, Gen: gen, Desc: desc},
		Posting{Date: date, Acc: debit, Other: credit, Com: com, Qty: new(big.Rat).Set(q), Trx: t, Gen: gen, Desc: desc})
}

func (l *Ledger) expandTrx(d jr.Dir) {
	date := ParseISO(d.Date)
	if d.Accrue == nil {
		// one transaction with all bookings
		t := len(l.TrxDates)
		l.TrxDates = append(l.TrxDates, date)
		for _, b := range d.Books {
			q := Q(b.Qty)
			l.Postings = append(l.Postings,
				Posting{Date: date, Acc: b.Credit, Other: b.Debit, Com: b.Com, Qty: Neg(q), Trx: t, Desc: d.Desc},
				Posting{Date: date, Acc: b.Debit, Other: b.Credit, Com: b.Com, Qty: q, Trx: t, Desc: d.Desc})
		}
		return
	}
	a := d.Accrue
	periods := Partition(ParseISO(a.Start), ParseISO(a.End), ParseIntervalName(a.Interval), 0)
	n := int64(len(periods))
	for _, b := range d.Books {
		for _, leg := range []struct {
			acc string
			q   *big.Rat
		}{{b.Credit, Neg(Q(b.Qty))}, {b.Debit, Q(b.Qty)}} {
			if !jr.IsIE(leg.acc) {
				// moved against the accrual account on the original date
				l.addTrx(date, d.Desc, a.Acc, leg.acc, b.Com, leg.q, "accrual")
				continue
			}
			// split: quotient truncated to one decimal, remainder to the first part
			amount := Trunc(new(big.Rat).Quo(leg.q, big.NewRat(n, 1)), 1)
			rem := Sub(leg.q, Mul(amount, big.NewRat(n, 1)))
			for i, p := range periods {
				part := amount
				if i == 0 {
					part = Add(amount, rem)
				}
				l.addTrx(p.E, fmt.Sprintf("%s (accrual %d/%d)", d.Desc, i+1, n), a.Acc, leg.acc, b.Com, part, "accrual")
			}
		}
	}
}

// Period returns [first transaction date, last transaction/price date]; ok is false
// when the journal has no transaction.
func (l *Ledger) Period() (min, max time.Time, hasTrx bool) {
	min = Day(9999, 12, 31)
	for _, d := range l.TrxDates {
		hasTrx = true
		if d.Before(min) {
			min = d
		}
		if d.After(max) {
			max = d
		}
	}
	for _, p := range l.Prices {
		if p.Date.After(max) {
			max = p.Date
		}
	}
	return
}

// MapRule is one -m rule.
type MapRule struct {
	Level, Suffix int
	Regex         string
	HasRegex      bool
}

func (r MapRule) Flag() string {
	s := fmt.Sprint(r.Level)
	if r.Suffix != 0 {
		s += ":" + fmt.Sprint(r.Suffix)
	}
	if r.HasRegex {
		s += "," + r.Regex
	}
	return s
}

// BalCfg are the flags of `knut balance` that matter for the content of the report.
type BalCfg struct {
	From, To  string // "" = absent
	Last      int
	Interval  Interval
	Diff      bool
	NoClose   bool
	AccRx     []string
	ComRx     []string
	Maps      []MapRule
	Remap     []string
	Valuation string
	Alpha     bool
}

// Args renders the flags (without file name; --color=false and --digits are the caller's).
func (c BalCfg) Args() []string {
	var a []string
	if c.From != "" {
		a = append(a, "--from", c.From)
	}
	if c.To != "" {
		a = append(a, "--to", c.To)
	}
	if c.Last != 0 {
		a = append(a, "--last", fmt.Sprint(c.Last))
	}
	if f := IntervalFlags[c.Interval]; f != "" {
		a = append(a, f)
	}
	if c.Diff {
		a = append(a, "--diff")
	}
	if c.NoClose {
		a = append(a, "--close=false")
	}
	for _, r := range c.AccRx {
		a = append(a, "--account", r)
	}
	for _, r := range c.ComRx {
		a = append(a, "--commodity", r)
	}
	for _, m := range c.Maps {
		a = append(a, "-m", m.Flag())
	}
	for _, r := range c.Remap {
		a = append(a, "--remap", r)
	}
	if c.Valuation != "" {
		a = append(a, "-v", c.Valuation)
	}
	if c.Alpha {
		a = append(a, "-a")
	}
	return a
}

// Window is the clipped report window and its shown periods.
type Window struct {
	Start, End time.Time
	Periods    []Period
}

func (w Window) Contains(d time.Time) bool { return !d.Before(w.Start) && !d.After(w.End) }

// Column returns the index of the column a date is attributed to, or -1.
func (w Window) Column(d time.Time) int {
	if len(w.Periods) == 0 || d.After(w.End) {
		return -1
	}
	for i, p := range w.Periods {
		if !d.After(p.E) {
			return i
		}
	}
	return -1
}

// WindowOf computes the window (DESIGN A.3). today bounds --to when absent.
func (l *Ledger) WindowOf(c BalCfg) Window {
	jmin, jmax, _ := l.Period()
	w := Window{Start: jmin, End: jmax}
	if c.From != "" {
		if f := ParseISO(c.From); f.After(w.Start) {
			w.Start = f
		}
	}
	if c.To != "" {
		if t := ParseISO(c.To); t.Before(w.End) {
			w.End = t
		}
	}
	w.Periods = Partition(w.Start, w.End, c.Interval, c.Last)
	return w
}

func matchAny(rxs []string, s string) bool {
	for _, r := range rxs {
		if regexp.MustCompile(r).MatchString(s) {
			return true
		}
	}
	return false
}

// RemapAccount swaps Assets<->Liabilities and Income<->Expenses for matching accounts.
func RemapAccount(acc string, rxs []string) string {
	if len(rxs) == 0 || !matchAny(rxs, acc) {
		return acc
	}
	segs := strings.Split(acc, ":")
	switch segs[0] {
	case "Assets":
		segs[0] = "Liabilities"
	case "Liabilities":
		segs[0] = "Assets"
	case "Income":
		segs[0] = "Expenses"
	case "Expenses":
		segs[0] = "Income"
	}
	return strings.Join(segs, ":")
}

// ShortenAccount applies the mapping rules (DESIGN A.6); hidden=true for level 0.
func ShortenAccount(acc string, rules []MapRule) (res string, hidden bool) {
	for _, r := range rules {
		if r.HasRegex && !regexp.MustCompile(r.Regex).MatchString(acc) {
			continue
		}
		segs := strings.Split(acc, ":")
		n := len(segs)
		switch {
		case r.Level == 0:
			return "", true
		case r.Suffix >= n, r.Level > n-r.Suffix:
			return acc, false
		}
		out := append([]string(nil), segs[:r.Level]...)
		out = append(out, segs[n-r.Suffix:]...)
		return strings.Join(out, ":"), false
	}
	return acc, false
}

// CellKey identifies one report cell (column index in the shown periods).
type CellKey struct {
	Acc, Com string
	Col      int
}

// Expected is the reference content of an unvalued balance report.
type Expected struct {
	Window Window
	Dates  []string
	// Raw per-column sums (not cumulative, not sign-flipped), per mapped account.
	Raw map[CellKey]*big.Rat
	// Rows: accounts that may appear as rows (mapped accounts receiving a posting, and
	// their ancestors).
	Rows map[string]bool
	// Hidden: raw per-column sums of postings removed by a level-0 mapping (by commodity)
	Hidden map[CellKey]*big.Rat
}

const EquityAccount = "Equity:Equity"

// inWindowPostings returns user postings inside the window plus the closing transfers
// (DESIGN A.4), in evaluation order.
func (l *Ledger) inWindowPostings(w Window, closing bool) []Posting {
	var in []Posting
	for _, p := range l.Postings {
		if w.Contains(p.Date) {
			in = append(in, p)
		}
	}
	sort.SliceStable(in, func(i, j int) bool { return in[i].Date.Before(in[j].Date) })
	if !closing {
		return in
	}
	var res []Posting
	acc := map[[2]string]*big.Rat{}
	var order [][2]string
	pi := 0
	flush := func(start time.Time) {
		for _, k := range order {
			t := acc[k]
			if t.Sign() == 0 {
				continue
			}
			// the account is credited with its accumulated total, equity debited
			res = append(res,
				Posting{Date: start, Acc: k[0], Other: EquityAccount, Com: k[1], Qty: Neg(t), Gen: "closing"},
				Posting{Date: start, Acc: EquityAccount, Other: k[0], Com: k[1], Qty: new(big.Rat).Set(t), Gen: "closing"})
			acc[k] = new(big.Rat)
		}
	}
	note := func(p Posting) {
		if jr.IsAL(p.Acc) || p.Acc == EquityAccount {
			return
		}
		k := [2]string{p.Acc, p.Com}
		if acc[k] == nil {
			acc[k] = new(big.Rat)
			order = append(order, k)
		}
		acc[k].Add(acc[k], p.Qty)
	}
	for _, per := range w.Periods {
		for pi < len(in) && in[pi].Date.Before(per.S) {
			res = append(res, in[pi])
			note(in[pi])
			pi++
		}
		flush(per.S)
	}
	for ; pi < len(in); pi++ {
		res = append(res, in[pi])
	}
	return res
}

// Balance computes the reference content of `knut balance` without valuation.
func (l *Ledger) Balance(c BalCfg) *Expected {
	w := l.WindowOf(c)
	ex := &Expected{Window: w, Raw: map[CellKey]*big.Rat{}, Rows: map[string]bool{}, Hidden: map[CellKey]*big.Rat{}}
	for _, p := range w.Periods {
		ex.Dates = append(ex.Dates, p.E.Format("2006-01-02"))
	}
	for _, p := range l.inWindowPostings(w, !c.NoClose) {
		if len(c.AccRx) > 0 && !matchAny(c.AccRx, p.Acc) {
			continue
		}
		if len(c.ComRx) > 0 && !matchAny(c.ComRx, p.Com) {
			continue
		}
		col := w.Column(p.Date)
		if col < 0 {
			continue
		}
		acc, hidden := ShortenAccount(RemapAccount(p.Acc, c.Remap), c.Maps)
		m := ex.Raw
		if hidden {
			m, acc = ex.Hidden, ""
		}
		k := CellKey{acc, p.Com, col}
		if m[k] == nil {
			m[k] = new(big.Rat)
		}
		m[k].Add(m[k], p.Qty)
		if !hidden {
			segs := strings.Split(acc, ":")
			for i := 1; i <= len(segs); i++ {
				ex.Rows[strings.Join(segs[:i], ":")] = true
			}
		}
	}
	return ex
}

// Display converts raw per-column sums into what a row shows: cumulative unless
// diff, negated for equity/income/expense rows.
func (ex *Expected) Display(raw map[CellKey]*big.Rat, acc, com string, diff, neg bool) []*big.Rat {
	res := make([]*big.Rat, len(ex.Dates))
	run := new(big.Rat)
	for i := range ex.Dates {
		v := raw[CellKey{acc, com, i}]
		if v == nil {
			v = new(big.Rat)
		}
		if diff {
			res[i] = new(big.Rat).Set(v)
		} else {
			run = Add(run, v)
			res[i] = run
		}
		if neg {
			res[i] = Neg(res[i])
		}
	}
	return res
}
