package ref

import (
	"math/big"
	"sort"
	"strings"
	"time"

	"kmc/jr"
)

// PriceOn returns the price of commodity c in V as of the end of day d (DESIGN A.7):
// 1 for V, the latest direct declaration (or its truncated reciprocal), otherwise the
// chain product. ambiguous is true when no direct declaration exists and several
// simple chains yield different values.
func (l *Ledger) PriceOn(d time.Time, V, c string) (p *big.Rat, connected, ambiguous bool) {
	if c == V {
		return big.NewRat(1, 1), true, false
	}
	decls := make([]PriceDecl, 0, len(l.Prices))
	for _, pd := range l.Prices {
		if !pd.Date.After(d) && pd.Price.Sign() != 0 {
			decls = append(decls, pd)
		}
	}
	sort.SliceStable(decls, func(i, j int) bool {
		if !decls[i].Date.Equal(decls[j].Date) {
			return decls[i].Date.Before(decls[j].Date)
		}
		return decls[i].Seq < decls[j].Seq
	})
	edge := map[[2]string]*big.Rat{} // edge[{a,b}] = price of b in a
	nodes := map[string]bool{V: true, c: true}
	for _, pd := range decls {
		edge[[2]string{pd.Tgt, pd.Com}] = pd.Price
		edge[[2]string{pd.Com, pd.Tgt}] = Trunc(new(big.Rat).Inv(pd.Price), 8)
		nodes[pd.Com], nodes[pd.Tgt] = true, true
	}
	if v, ok := edge[[2]string{V, c}]; ok {
		return Trunc(v, 8), true, false
	}
	var names []string
	for n := range nodes {
		names = append(names, n)
	}
	sort.Strings(names)
	var vals []*big.Rat
	var rec func(cur string, acc *big.Rat, seen map[string]bool)
	rec = func(cur string, acc *big.Rat, seen map[string]bool) {
		if cur == c {
			vals = append(vals, acc)
			return
		}
		for _, nx := range names {
			if seen[nx] {
				continue
			}
			if e, ok := edge[[2]string{cur, nx}]; ok {
				seen[nx] = true
				rec(nx, Trunc(Mul(e, acc), 8), seen)
				delete(seen, nx)
			}
		}
	}
	rec(V, big.NewRat(1, 1), map[string]bool{V: true})
	if len(vals) == 0 {
		return nil, false, false
	}
	for _, v := range vals[1:] {
		if v.Cmp(vals[0]) != 0 {
			ambiguous = true
		}
	}
	return vals[0], true, ambiguous
}

// SameDayPriceConflict reports whether two declarations for the same unordered pair
// share a day (such journals are ambiguous by construction).
func (l *Ledger) SameDayPriceConflict() bool {
	seen := map[string]bool{}
	for _, p := range l.Prices {
		a, b := p.Com, p.Tgt
		if a > b {
			a, b = b, a
		}
		k := ISO(p.Date) + a + "/" + b
		if seen[k] {
			return true
		}
		seen[k] = true
	}
	return false
}

// MissingPrice reports whether valuation in V must fail: some posting with a non-zero
// quantity in a commodity other than V has no price on its day.
func (l *Ledger) MissingPrice(V string) (bool, string) {
	for _, p := range l.Postings {
		if p.Com == V || p.Qty.Sign() == 0 {
			continue
		}
		if _, ok, _ := l.PriceOn(p.Date, V, p.Com); !ok {
			return true, p.Com + " on " + ISO(p.Date)
		}
	}
	return false, ""
}

// ValuedCell is a reference value with the tolerance the statement allows
// (one 8-decimal truncation per arithmetic step).
type ValuedCell struct {
	Value     *big.Rat
	Tol       *big.Rat
	Ambiguous bool
}

var ulp = big.NewRat(1, 100000000)

// JournalDays returns the distinct dates carrying any directive (plus extra days).
func (l *Ledger) JournalDays(extra ...time.Time) []time.Time {
	set := map[time.Time]bool{}
	for _, d := range l.Dirs {
		if d.Kind != jr.Include && d.Date != "" {
			set[ParseISO(d.Date)] = true
		}
	}
	for _, d := range l.TrxDates {
		set[d] = true
	}
	for _, d := range extra {
		set[d] = true
	}
	var res []time.Time
	for d := range set {
		res = append(res, d)
	}
	sort.Slice(res, func(i, j int) bool { return res[i].Before(res[j]) })
	return res
}

// MarkToMarket returns, for an asset/liability account, the sum over its positions of
// quantity (bookings inside the window up to date d) times the latest price <= d.
func (l *Ledger) MarkToMarket(w Window, acc, V string, d time.Time) ValuedCell {
	qty := map[string]*big.Rat{}
	n := 0
	for _, p := range l.Postings {
		if p.Acc != acc || !w.Contains(p.Date) || p.Date.After(d) {
			continue
		}
		if qty[p.Com] == nil {
			qty[p.Com] = new(big.Rat)
		}
		qty[p.Com].Add(qty[p.Com], p.Qty)
		n++
	}
	res := ValuedCell{Value: new(big.Rat)}
	days := 0
	for _, jd := range l.JournalDays() {
		if !jd.After(d) {
			days++
		}
	}
	for com, q := range qty {
		pr, ok, amb := l.PriceOn(d, V, com)
		if !ok {
			continue
		}
		res.Ambiguous = res.Ambiguous || amb
		res.Value.Add(res.Value, Mul(q, pr))
	}
	steps := int64(n + (days+len(w.Periods)+2)*len(qty) + 1)
	res.Tol = Mul(ulp, big.NewRat(steps, 1))
	return res
}

// BookedValue returns the sum of the booking-day values of the postings of an account
// inside the window up to d: trunc8(quantity x price of the booking day).
func (l *Ledger) BookedValue(w Window, acc, V string, d time.Time) ValuedCell {
	res := ValuedCell{Value: new(big.Rat)}
	n := 0
	for _, p := range l.Postings {
		if p.Acc != acc || !w.Contains(p.Date) || p.Date.After(d) {
			continue
		}
		pr, ok, amb := l.PriceOn(p.Date, V, p.Com)
		if !ok {
			continue
		}
		res.Ambiguous = res.Ambiguous || amb
		res.Value.Add(res.Value, Mul(p.Qty, pr))
		n++
	}
	res.Tol = Mul(ulp, big.NewRat(int64(n+1), 1))
	return res
}

// ValuationAccount mirrors an asset/liability account path under Income.
func ValuationAccount(acc string) string {
	segs := strings.Split(acc, ":")
	segs[0] = "Income"
	return strings.Join(segs, ":")
}

// Within reports |a-b| <= tol.
func Within(a, b, tol *big.Rat) bool {
	return Abs(Sub(a, b)).Cmp(tol) <= 0
}
