package ref

import (
	"encoding/csv"
	"fmt"
	"strings"
	"unicode/utf8"
)

// TextRow is one data line of a rendered text table.
type TextRow struct {
	Indent int
	Name   string
	Cells  []string // remaining cells, trimmed
}

// TextTable is the parsed form of knut's text table renderer output.
type TextTable struct {
	Header []string
	Rows   []TextRow
	Width  int
}

// ParseTextTable checks the geometry of a rendered table (all lines of equal rune
// width, separators in identical columns) and returns its cells.
func ParseTextTable(s string) (*TextTable, error) {
	lines := strings.Split(s, "\n")
	// the renderer terminates the table with an empty line
	for len(lines) > 0 && lines[len(lines)-1] == "" {
		lines = lines[:len(lines)-1]
	}
	if len(lines) == 0 {
		return nil, fmt.Errorf("empty table")
	}
	t := &TextTable{Width: utf8.RuneCountInString(lines[0])}
	var sepCols []int
	headerSeen := false
	for ln, l := range lines {
		if w := utf8.RuneCountInString(l); w != t.Width {
			return nil, fmt.Errorf("line %d has width %d, want %d: %q", ln+1, w, t.Width, l)
		}
		rs := []rune(l)
		var cols []int
		sepRune := '|'
		if rs[0] == '+' {
			sepRune = '+'
		}
		for i, r := range rs {
			if r == sepRune {
				cols = append(cols, i)
			}
		}
		if sepCols == nil {
			sepCols = cols
		} else if fmt.Sprint(cols) != fmt.Sprint(sepCols) {
			return nil, fmt.Errorf("line %d: separators at %v, want %v: %q", ln+1, cols, sepCols, l)
		}
		if rs[0] == '+' {
			continue
		}
		var cells []string
		for i := 0; i+1 < len(cols); i++ {
			seg := string(rs[cols[i]+1 : cols[i+1]])
			// one padding blank on each side
			if len(seg) >= 2 {
				seg = seg[1 : len(seg)-1]
			}
			cells = append(cells, seg)
		}
		if !headerSeen {
			headerSeen = true
			for _, c := range cells {
				t.Header = append(t.Header, strings.TrimSpace(c))
			}
			continue
		}
		row := TextRow{}
		first := cells[0]
		trimmed := strings.TrimLeft(first, " ")
		row.Indent = len(first) - len(trimmed)
		row.Name = strings.TrimRight(trimmed, " ")
		if row.Name == "" {
			row.Indent = 0
		}
		for _, c := range cells[1:] {
			row.Cells = append(row.Cells, strings.TrimSpace(c))
		}
		t.Rows = append(t.Rows, row)
	}
	return t, nil
}

// ParseCSVTable parses the CSV rendering.
func ParseCSVTable(s string) ([][]string, error) {
	r := csv.NewReader(strings.NewReader(s))
	r.FieldsPerRecord = -1
	return r.ReadAll()
}

// BalanceRow is one (account, commodity) line of a balance report.
type BalanceRow struct {
	Section string // "AL", "EIE", "TotalAL", "TotalEIE", "Delta"
	Path    string // account path reconstructed from indentation ("" for totals)
	Comm    string // "" when the report has no commodity column
	Cells   []string
}

// BalanceTable is a balance report read back from its text rendering.
type BalanceTable struct {
	Dates   []string
	HasComm bool
	Rows    []BalanceRow
	// Accounts lists every account row in order of appearance (incl. empty parents)
	Accounts []string
}

// ReadBalanceText reconstructs the account tree of a text balance report.
func ReadBalanceText(s string) (*BalanceTable, error) {
	t, err := ParseTextTable(s)
	if err != nil {
		return nil, err
	}
	b := &BalanceTable{}
	if len(t.Header) == 0 || t.Header[0] != "Account" {
		return nil, fmt.Errorf("unexpected header %v", t.Header)
	}
	rest := t.Header[1:]
	if len(rest) > 0 && rest[0] == "Comm" {
		b.HasComm = true
		rest = rest[1:]
	}
	b.Dates = rest
	var stack []string
	section, path := "", ""
	for _, r := range t.Rows {
		cells := r.Cells
		comm := ""
		if b.HasComm {
			comm, cells = cells[0], cells[1:]
		}
		if r.Name != "" {
			if r.Indent%2 != 0 {
				return nil, fmt.Errorf("odd indentation %d for %q", r.Indent, r.Name)
			}
			lvl := r.Indent / 2
			switch {
			case lvl == 0 && r.Name == "Total (A+L)":
				section, path, stack = "TotalAL", "", nil
			case lvl == 0 && r.Name == "Total (E+I+E)":
				section, path, stack = "TotalEIE", "", nil
			case lvl == 0 && r.Name == "Delta":
				section, path, stack = "Delta", "", nil
			default:
				if lvl > len(stack) {
					return nil, fmt.Errorf("row %q indented to level %d below a level-%d row", r.Name, lvl, len(stack))
				}
				stack = append(stack[:lvl], r.Name)
				path = strings.Join(stack, ":")
				switch stack[0] {
				case "Assets", "Liabilities":
					section = "AL"
				case "Equity", "Income", "Expenses":
					section = "EIE"
				default:
					return nil, fmt.Errorf("unknown top-level row %q", stack[0])
				}
				b.Accounts = append(b.Accounts, path)
			}
		} else {
			blank := comm == ""
			for _, c := range cells {
				blank = blank && c == ""
			}
			if blank {
				continue // spacer row
			}
		}
		b.Rows = append(b.Rows, BalanceRow{Section: section, Path: path, Comm: comm, Cells: cells})
	}
	return b, nil
}
