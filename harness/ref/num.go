// Package ref holds the reference models ("boring" re-statements of the property
// semantics in exact rational arithmetic) and the readers of knut's outputs.
package ref

import (
	"fmt"
	"math/big"
	"strings"
)

// Q parses a plain decimal string into an exact rational.
func Q(s string) *big.Rat {
	r, ok := new(big.Rat).SetString(s)
	if !ok {
		panic("ref.Q: bad number " + s)
	}
	return r
}

// ParseNum parses a number printed by knut (optional thousands separators).
func ParseNum(s string) (*big.Rat, error) {
	s = strings.ReplaceAll(strings.TrimSpace(s), ",", "")
	if s == "" {
		return new(big.Rat), nil
	}
	r, ok := new(big.Rat).SetString(s)
	if !ok {
		return nil, fmt.Errorf("not a number: %q", s)
	}
	return r, nil
}

func Zero() *big.Rat { return new(big.Rat) }

func Add(a, b *big.Rat) *big.Rat { return new(big.Rat).Add(a, b) }
func Sub(a, b *big.Rat) *big.Rat { return new(big.Rat).Sub(a, b) }
func Mul(a, b *big.Rat) *big.Rat { return new(big.Rat).Mul(a, b) }
func Neg(a *big.Rat) *big.Rat    { return new(big.Rat).Neg(a) }
func Eq(a, b *big.Rat) bool      { return a.Cmp(b) == 0 }
func IsZero(a *big.Rat) bool     { return a.Sign() == 0 }

var pow10 = map[int]*big.Int{}

func p10(n int) *big.Int {
	if v, ok := pow10[n]; ok {
		return v
	}
	v := new(big.Int).Exp(big.NewInt(10), big.NewInt(int64(n)), nil)
	pow10[n] = v
	return v
}

// Trunc truncates towards zero to n decimals.
func Trunc(a *big.Rat, n int) *big.Rat {
	num := new(big.Int).Mul(a.Num(), p10(n))
	q := new(big.Int).Quo(num, a.Denom()) // Quo truncates towards zero
	return new(big.Rat).SetFrac(q, p10(n))
}

// RoundHalfAway rounds to n decimals, ties away from zero.
func RoundHalfAway(a *big.Rat, n int) *big.Rat {
	num := new(big.Int).Mul(a.Num(), p10(n))
	num.Mul(num, big.NewInt(2))
	den := new(big.Int).Mul(a.Denom(), big.NewInt(2))
	// add/subtract one half (= denom of the doubled fraction / 2 = a.Denom())
	if a.Sign() >= 0 {
		num.Add(num, a.Denom())
	} else {
		num.Sub(num, a.Denom())
	}
	q := new(big.Int).Quo(num, den)
	return new(big.Rat).SetFrac(q, p10(n))
}

// Fixed renders a with exactly n decimals (a must be a multiple of 10^-n).
func Fixed(a *big.Rat, n int) string { return a.FloatString(n) }

// Str renders a rational that is a finite decimal without trailing zeros.
func Str(a *big.Rat) string {
	s := a.FloatString(12)
	if strings.Contains(s, ".") {
		s = strings.TrimRight(s, "0")
		s = strings.TrimSuffix(s, ".")
	}
	return s
}

// Abs returns |a|.
func Abs(a *big.Rat) *big.Rat { return new(big.Rat).Abs(a) }
