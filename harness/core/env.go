package core

import (
	"bufio"
	"crypto/sha256"
	"encoding/hex"
	"encoding/json"
	"fmt"
	"hash/fnv"
	"os"
	"os/exec"
	"path/filepath"
	"runtime"
	"sort"
	"strconv"
	"strings"
	"sync"
	"sync/atomic"
	"time"
)

// Check is one property check.
type Check struct {
	ID    string
	Level string // evidence level: model_checking | fault_enumeration
	// Run enumerates the bounded space. It is executed in every worker; a worker
	// executes only the cases for which e.Take() returns true.
	Run func(e *Env)
	// Replay re-executes one recorded case and reports whether it still violates.
	Replay func(e *Env, data json.RawMessage) (violates bool, detail string)
	// Workers: 0 = all cores, 1 = single process.
	Workers int
	// QuickBudget/ThoroughBudget: soft wall-clock budgets after which Expired() is true.
	QuickBudget, ThoroughBudget time.Duration
	Rule                        string
	// Added: parts added after the seeded-change rounds (DESIGN.md 10.9), appended to the rule in the evidence
	Added       string
	Assumptions []string
}

var registry = map[string]*Check{}

func Register(c *Check) { registry[c.ID] = c }

// Violation is a replayable counterexample.
type Violation struct {
	Property string          `json:"property"`
	Key      string          `json:"key"`
	Detail   string          `json:"detail"`
	Case     json.RawMessage `json:"case"`
	Flaky    bool            `json:"flaky,omitempty"`
}

// WorkerResult is what a worker process reports.
type WorkerResult struct {
	Counters   map[string]int64 `json:"counters"`
	Samples    []any            `json:"samples"`
	Violations []Violation      `json:"violations"`
	ViolCount  map[string]int   `json:"viol_count"`
	Hashes     []uint64         `json:"hashes"`
	Capped     bool             `json:"capped"`
	Notes      []string         `json:"notes"`
	EngineErr  []string         `json:"engine_errors"`
	Bound      map[string]int   `json:"bound"`
}

// Env is the per-process context of a running check.
type Env struct {
	Check        *Check
	Tier         string
	Seed         int64
	Shard        int
	Of           int
	Deadline     time.Time
	tailDeadline time.Time
	tails        int64
	offered      int64

	caseNo int64
	beat   int64 // heartbeat (see Expired)
	res    WorkerResult
	hashes map[uint64]struct{}
	mark   *os.File
	drv    *Driver
}

func (e *Env) Thorough() bool { return e.Tier == "thorough" }

// Pick returns q in the quick tier and t in the thorough tier.
func Pick[T any](e *Env, q, t T) T {
	if e.Thorough() {
		return t
	}
	return q
}

// Driver returns the process-wide in-process driver.
func (e *Env) Driver() *Driver {
	if e.drv == nil {
		e.drv = NewDriver(e.Check.ID)
	}
	return e.drv
}

// Take advances the case counter and reports whether this worker owns the case.
func (e *Env) Take() bool {
	n := e.caseNo
	e.caseNo++
	e.offered++
	mine := e.Of <= 1 || int(n%int64(e.Of)) == e.Shard
	if mine && e.mark != nil && n%16 == 0 {
		fmt.Fprintf(e.mark, "%d\n", n)
	}
	return mine
}

// CaseNo is the index of the case last offered by Take.
func (e *Env) CaseNo() int64 { return e.caseNo - 1 }

// Expired reports whether the soft budget is used up (the run must then stop and
// report exhaustive=false).
func (e *Env) Expired() bool {
	// polled between the executions of every exploration: a heartbeat for the watchdog
	atomic.AddInt64(&e.beat, 1)
	if e.Deadline.IsZero() {
		return false
	}
	if time.Now().After(e.Deadline) {
		e.res.Capped = true
		return true
	}
	return false
}

func (e *Env) Capped() { e.res.Capped = true }

// ReserveTail keeps the last quarter of the time budget for the parts of a check that
// come after its main enumeration (BeginTail); without it a main enumeration that runs
// into the deadline would starve them.
func (e *Env) ReserveTail() {
	if e.Deadline.IsZero() || !e.tailDeadline.IsZero() {
		return
	}
	e.tailDeadline = e.Deadline
	e.Deadline = e.Deadline.Add(-time.Until(e.Deadline) / 4)
}

// BeginTail makes the reserved time available. It also re-synchronises the case counter
// of the workers: a main enumeration that was cut off by the deadline stops at a
// different case in every worker, and the sharding of the following cases by
// "case number modulo workers" would then drop some cases and duplicate others.
func (e *Env) BeginTail() {
	if !e.tailDeadline.IsZero() {
		e.Deadline = e.tailDeadline
	}
	e.tails++
	e.caseNo = e.tails << 40
}

// Beat tells the watchdog that the worker is alive (long waits on subprocesses).
func (e *Env) Beat()                  { atomic.AddInt64(&e.beat, 1) }
func (e *Env) Count(name string)      { e.res.Counters[name]++ }
func (e *Env) Add(name string, n int) { e.res.Counters[name] += int64(n) }
func (e *Env) Note(format string, a ...any) {
	if len(e.res.Notes) < 200 {
		e.res.Notes = append(e.res.Notes, fmt.Sprintf(format, a...))
	}
}
func (e *Env) EngineError(format string, a ...any) {
	if len(e.res.EngineErr) < 20 {
		e.res.EngineErr = append(e.res.EngineErr, fmt.Sprintf(format, a...))
	}
}
func (e *Env) SetBound(name string, v int) {
	if old, ok := e.res.Bound[name]; !ok || v < old {
		e.res.Bound[name] = v
	}
}

// AddStats folds exploration statistics into the counters.
func (e *Env) AddStats(st ExploreStats) {
	e.Add("executions", st.Executions)
	e.Add("states", st.States)
	e.Add("transitions", st.Transitions)
	for k, n := range st.PerKind {
		if n > 0 {
			e.Add("choicepoints_"+kindNames[k], n)
		}
	}
	if int64(st.MaxDepth) > e.res.Counters["max_depth"] {
		e.res.Counters["max_depth"] = int64(st.MaxDepth)
	}
	if st.Capped {
		e.res.Capped = true
	}
	for _, d := range st.Diverged {
		e.EngineError("replay divergence (nondeterminism not owned): %s", d)
	}
}

// Sample keeps a few example cases for the evidence file.
func (e *Env) Sample(v any) {
	if len(e.res.Samples) < 4 {
		e.res.Samples = append(e.res.Samples, v)
	}
}

// Distinct records an outcome hash for distinct-outcome counting.
func (e *Env) Distinct(s string) {
	h := fnv.New64a()
	h.Write([]byte(s))
	e.hashes[h.Sum64()] = struct{}{}
}

// Violation records a counterexample. recheck (may be nil) re-executes the case; it
// is called 5 times and must report the violation every time, otherwise the finding
// is flagged flaky (engine error, not a property verdict).
func (e *Env) Violation(key, detail string, cs any, recheck func() bool) {
	e.res.ViolCount[key]++
	if e.res.ViolCount[key] > 2 {
		return
	}
	flaky := false
	if recheck != nil {
		for i := 0; i < 5; i++ {
			if !recheck() {
				flaky = true
				break
			}
		}
	}
	raw, err := json.Marshal(cs)
	if err != nil {
		raw, _ = json.Marshal(fmt.Sprint(cs))
	}
	e.res.Violations = append(e.res.Violations, Violation{Property: e.Check.ID, Key: key, Detail: detail, Case: raw, Flaky: flaky})
}

// ---------------------------------------------------------------------------------
// Known findings

type Finding struct {
	Property string `json:"property"`
	Key      string `json:"key"`
	Status   string `json:"status"` // known | fixed
	Commit   string `json:"commit,omitempty"`
	What     string `json:"what"`
}

func loadFindings(root string) []Finding {
	b, err := os.ReadFile(filepath.Join(root, "known_findings.json"))
	if err != nil {
		return nil
	}
	var fs []Finding
	if err := json.Unmarshal(b, &fs); err != nil {
		fmt.Fprintln(os.Stderr, "known_findings.json:", err)
		os.Exit(2)
	}
	return fs
}

// ---------------------------------------------------------------------------------
// Orchestration

// Root is the verification directory (KMC_ROOT, set by ./check; default /verif).
var Root = rootDir()

func rootDir() string {
	if r := os.Getenv("KMC_ROOT"); r != "" {
		return r
	}
	return "/verif"
}

// Main is the entry point of the kmc binary.
func Main(args []string) int {
	if len(args) < 2 && !(len(args) == 1 && args[0] == "list") {
		fmt.Fprintln(os.Stderr, "usage: kmc check <id> [--tier quick|thorough] | worker ... | replay <path> | list")
		return 2
	}
	switch args[0] {
	case "list":
		ids := make([]string, 0, len(registry))
		for id := range registry {
			ids = append(ids, id)
		}
		sort.Strings(ids)
		fmt.Println(strings.Join(ids, "\n"))
		return 0
	case "check":
		return runCheck(args[1], args[2:])
	case "worker":
		return runWorker(args[1], args[2:])
	case "replay":
		return runReplay(args[1])
	}
	return 2
}

func flagVal(args []string, name, def string) string {
	for i, a := range args {
		if a == "--"+name && i+1 < len(args) {
			return args[i+1]
		}
		if strings.HasPrefix(a, "--"+name+"=") {
			return strings.TrimPrefix(a, "--"+name+"=")
		}
	}
	return def
}

func newEnv(c *Check, tier string, seed int64, shard, of int) *Env {
	e := &Env{Check: c, Tier: tier, Seed: seed, Shard: shard, Of: of, hashes: map[uint64]struct{}{}}
	e.res.Counters = map[string]int64{}
	e.res.ViolCount = map[string]int{}
	e.res.Bound = map[string]int{}
	budget := c.QuickBudget
	if tier == "thorough" {
		budget = c.ThoroughBudget
	}
	if s := os.Getenv("KMC_BUDGET"); s != "" {
		if d, err := time.ParseDuration(s); err == nil {
			budget = d
		}
	}
	if budget > 0 {
		e.Deadline = time.Now().Add(budget)
	}
	return e
}

func runWorker(id string, args []string) int {
	c := registry[id]
	if c == nil {
		fmt.Fprintln(os.Stderr, "unknown check", id)
		return 2
	}
	tier := flagVal(args, "tier", "quick")
	seed, _ := strconv.ParseInt(flagVal(args, "seed", "0"), 10, 64)
	shard, _ := strconv.Atoi(flagVal(args, "shard", "0"))
	of, _ := strconv.Atoi(flagVal(args, "of", "1"))
	outPath := flagVal(args, "out", "")
	e := newEnv(c, tier, seed, shard, of)
	if mp := flagVal(args, "mark", ""); mp != "" {
		e.mark, _ = os.OpenFile(mp, os.O_WRONLY|os.O_CREATE|os.O_TRUNC, 0o644)
	}
	// watchdog: no progress for a long time => report the case being executed
	done := make(chan struct{})
	go func() {
		last, lastBeat, lastT := int64(-1), int64(-1), time.Now()
		for {
			select {
			case <-done:
				return
			case <-time.After(2 * time.Second):
			}
			// a worker that grows beyond 3.5 GiB ends itself (16 of them share 62 GiB): an
			// engine error is better than the kernel's OOM killer picking a victim
			var ms runtime.MemStats
			runtime.ReadMemStats(&ms)
			if ms.HeapAlloc > 3584<<20 {
				fmt.Fprintf(os.Stderr, "WATCHDOG worker %d uses %d MiB of heap at case %d\n", shard, ms.HeapAlloc>>20, e.caseNo)
				os.Exit(4)
			}
			if b := atomic.LoadInt64(&e.beat); e.caseNo != last || b != lastBeat {
				last, lastBeat, lastT = e.caseNo, b, time.Now()
			} else if time.Since(lastT) > 300*time.Second {
				fmt.Fprintf(os.Stderr, "WATCHDOG worker %d stuck at case %d\n", shard, last)
				os.Exit(3)
			}
		}
	}()
	c.Run(e)
	close(done)
	if e.drv != nil {
		e.drv.Close()
	}
	e.res.Counters["cases_offered"] = e.offered
	for h := range e.hashes {
		e.res.Hashes = append(e.res.Hashes, h)
	}
	b, _ := json.Marshal(e.res)
	if outPath == "" {
		os.Stdout.Write(b)
		return 0
	}
	if err := os.WriteFile(outPath, b, 0o644); err != nil {
		fmt.Fprintln(os.Stderr, err)
		return 2
	}
	return 0
}

func runCheck(id string, args []string) int {
	c := registry[id]
	if c == nil {
		fmt.Fprintln(os.Stderr, "unknown check", id)
		return 2
	}
	tier := flagVal(args, "tier", os.Getenv("VERIF_TIER"))
	if tier != "thorough" {
		tier = "quick"
	}
	seed, _ := strconv.ParseInt(os.Getenv("VERIF_SEED"), 10, 64)
	start := time.Now()
	n := c.Workers
	if n == 0 {
		n = 16
		if s := os.Getenv("KMC_WORKERS"); s != "" {
			n, _ = strconv.Atoi(s)
		}
	}
	scratch := filepath.Join(Root, ".cache", "run", fmt.Sprintf("%s-%d", id, os.Getpid()))
	os.MkdirAll(scratch, 0o755)
	defer os.RemoveAll(scratch)
	self, _ := os.Executable()

	results := make([]*WorkerResult, n)
	errs := make([]string, n)
	var wg sync.WaitGroup
	for i := 0; i < n; i++ {
		wg.Add(1)
		go func(i int) {
			defer wg.Done()
			out := filepath.Join(scratch, fmt.Sprintf("w%d.json", i))
			mark := filepath.Join(scratch, fmt.Sprintf("w%d.mark", i))
			cmd := exec.Command(self, "worker", id, "--tier", tier, "--seed", strconv.FormatInt(seed, 10),
				"--shard", strconv.Itoa(i), "--of", strconv.Itoa(n), "--out", out, "--mark", mark)
			cmd.Env = append(os.Environ(), "GOMAXPROCS=1")
			var stderr strings.Builder
			cmd.Stderr = &stderr
			cmd.Stdout = &stderr
			err := cmd.Run()
			if err != nil {
				last := ""
				if b, e2 := os.ReadFile(mark); e2 == nil {
					ls := strings.Split(strings.TrimSpace(string(b)), "\n")
					last = ls[len(ls)-1]
				}
				errs[i] = fmt.Sprintf("worker %d died (%v) near case %s:\n%s", i, err, last, tail(stderr.String(), 40))
				return
			}
			b, err := os.ReadFile(out)
			if err != nil {
				errs[i] = err.Error()
				return
			}
			var r WorkerResult
			if err := json.Unmarshal(b, &r); err != nil {
				errs[i] = err.Error()
				return
			}
			results[i] = &r
		}(i)
	}
	wg.Wait()

	// merge
	total := WorkerResult{Counters: map[string]int64{}, ViolCount: map[string]int{}, Bound: map[string]int{}}
	hashes := map[uint64]struct{}{}
	engineErr := false
	for i, r := range results {
		if errs[i] != "" {
			fmt.Fprintln(os.Stderr, "ENGINE-ERROR:", errs[i])
			engineErr = true
			continue
		}
		for k, v := range r.Counters {
			if k == "max_depth" || k == "cases_offered" {
				if v > total.Counters[k] {
					total.Counters[k] = v
				}
				continue
			}
			total.Counters[k] += v
		}
		for k, v := range r.ViolCount {
			total.ViolCount[k] += v
		}
		for k, v := range r.Bound {
			if old, ok := total.Bound[k]; !ok || v < old {
				total.Bound[k] = v
			}
		}
		for _, s := range r.Samples {
			if len(total.Samples) < 6 {
				total.Samples = append(total.Samples, s)
			}
		}
		total.Violations = append(total.Violations, r.Violations...)
		total.Notes = append(total.Notes, r.Notes...)
		for _, ee := range r.EngineErr {
			fmt.Fprintln(os.Stderr, "ENGINE-ERROR:", ee)
			engineErr = true
		}
		total.Capped = total.Capped || r.Capped
		for _, h := range r.Hashes {
			hashes[h] = struct{}{}
		}
	}

	// classify violations against the known-findings file
	findings := loadFindings(Root)
	known := map[string]Finding{}
	for _, f := range findings {
		if f.Property == id && f.Status == "known" {
			known[f.Key] = f
		}
	}
	sort.Slice(total.Violations, func(i, j int) bool { return total.Violations[i].Key < total.Violations[j].Key })
	printedKnown := map[string]bool{}
	newViol := 0
	seenKey := map[string]bool{}
	for _, v := range total.Violations {
		if v.Flaky {
			fmt.Fprintf(os.Stderr, "ENGINE-ERROR: flaky violation %s (%s) did not reproduce 5/5\n", v.Key, v.Detail)
			engineErr = true
			continue
		}
		if f, ok := known[v.Key]; ok {
			if !printedKnown[v.Key] {
				fmt.Printf("KNOWN-FINDING: property=%s %s: %s (%d cases)\n", id, v.Key, f.What, total.ViolCount[v.Key])
				printedKnown[v.Key] = true
			}
			continue
		}
		if seenKey[v.Key] {
			continue
		}
		seenKey[v.Key] = true
		newViol++
		path := writeReplay(v)
		fmt.Printf("VIOLATION property=%s replay=%s\n", id, path)
		fmt.Printf("  key=%s cases=%d\n  %s\n", v.Key, total.ViolCount[v.Key], strings.ReplaceAll(firstLines(v.Detail, 30), "\n", "\n  "))
	}
	writeEvidence(c, tier, seed, &total, len(hashes), newViol, time.Since(start), len(printedKnown))
	for _, nn := range dedup(total.Notes) {
		fmt.Println("note:", nn)
	}
	fmt.Printf("%s %s: evaluations=%d states=%d transitions=%d distinct_outcomes=%d violations=%d known=%d capped=%v wall=%.1fs\n",
		id, tier, total.Counters["evaluations"], total.Counters["states"], total.Counters["transitions"], len(hashes), newViol, len(printedKnown), total.Capped, time.Since(start).Seconds())
	switch {
	case newViol > 0:
		return 1
	case engineErr:
		return 2
	}
	return 0
}

func dedup(ss []string) []string {
	seen := map[string]bool{}
	var res []string
	for _, s := range ss {
		if !seen[s] {
			seen[s] = true
			res = append(res, s)
		}
	}
	return res
}

func tail(s string, n int) string {
	ls := strings.Split(strings.TrimRight(s, "\n"), "\n")
	if len(ls) > n {
		ls = ls[len(ls)-n:]
	}
	return strings.Join(ls, "\n")
}

func writeReplay(v Violation) string {
	dir := filepath.Join(Root, "replays")
	os.MkdirAll(dir, 0o755)
	h := sha256.Sum256([]byte(v.Key))
	name := fmt.Sprintf("%s-%s.json", v.Property, hex.EncodeToString(h[:4]))
	p := filepath.Join(dir, name)
	b, _ := json.MarshalIndent(v, "", " ")
	os.WriteFile(p, b, 0o644)
	return p
}

func runReplay(path string) int {
	b, err := os.ReadFile(path)
	if err != nil {
		fmt.Fprintln(os.Stderr, err)
		return 2
	}
	var v Violation
	if err := json.Unmarshal(b, &v); err != nil {
		fmt.Fprintln(os.Stderr, err)
		return 2
	}
	c := registry[v.Property]
	if c == nil || c.Replay == nil {
		fmt.Fprintln(os.Stderr, "no replay for", v.Property)
		return 2
	}
	e := newEnv(c, "quick", 0, 0, 1)
	bad, detail := c.Replay(e, v.Case)
	if e.drv != nil {
		e.drv.Close()
	}
	if bad {
		fmt.Printf("VIOLATION property=%s replay=%s\n  %s\n", v.Property, path, strings.ReplaceAll(detail, "\n", "\n  "))
		return 1
	}
	fmt.Println("replay: no violation;", detail)
	return 0
}

func writeEvidence(c *Check, tier string, seed int64, t *WorkerResult, distinct, viol int, wall time.Duration, known int) {
	cov := map[string]any{}
	for k, v := range t.Counters {
		cov[k] = v
	}
	if _, ok := cov["evaluations"]; !ok {
		cov["evaluations"] = t.Counters["executions"]
	}
	if _, ok := cov["states"]; !ok {
		cov["states"] = cov["evaluations"]
	}
	if _, ok := cov["transitions"]; !ok {
		cov["transitions"] = cov["evaluations"]
	}
	if _, ok := cov["traces_validated_against_impl"]; !ok {
		cov["traces_validated_against_impl"] = int64(0)
	}
	cov["distinct_outcomes"] = distinct
	if _, ok := cov["distinct_nontrivial"]; !ok {
		cov["distinct_nontrivial"] = distinct
	}
	cov["rule"] = c.Rule
	if c.Added != "" {
		cov["rule"] = c.Rule + " ADDED LATER: " + c.Added
	}
	samples := t.Samples
	if len(samples) == 0 {
		samples = []any{"(no sample recorded)"}
	}
	cov["samples"] = samples
	cov["exhaustive"] = !t.Capped
	if len(t.Bound) > 0 {
		cov["bounds_completed"] = t.Bound
	}
	cov["known_findings_reported"] = known
	ev := map[string]any{
		"property_id": c.ID,
		"tier":        tier,
		"seed":        seed,
		"level":       c.Level,
		"coverage":    cov,
		"assumptions": c.Assumptions,
		"wall_s":      float64(int(wall.Seconds()*10)) / 10,
		"violations":  viol,
	}
	dir := filepath.Join(Root, "evidence")
	os.MkdirAll(dir, 0o755)
	f, err := os.Create(filepath.Join(dir, c.ID+".json"))
	if err != nil {
		fmt.Fprintln(os.Stderr, err)
		return
	}
	defer f.Close()
	w := bufio.NewWriter(f)
	enc := json.NewEncoder(w)
	enc.SetIndent("", " ")
	enc.Encode(ev)
	w.Flush()
}
