package core

import (
	"bytes"
	"context"
	"fmt"
	"os"
	"os/exec"
	"path/filepath"
	"runtime/debug"
	"strings"
	"syscall"
	"time"

	"github.com/fatih/color"
	"github.com/sboehler/knut/cmd"
	_ "github.com/sboehler/knut/cmd/importer/cumulus"
	_ "github.com/sboehler/knut/cmd/importer/interactivebrokers"
	_ "github.com/sboehler/knut/cmd/importer/postfinance"
	_ "github.com/sboehler/knut/cmd/importer/revolut"
	_ "github.com/sboehler/knut/cmd/importer/revolut2"
	_ "github.com/sboehler/knut/cmd/importer/supercard"
	_ "github.com/sboehler/knut/cmd/importer/swisscard"
	_ "github.com/sboehler/knut/cmd/importer/swisscard2"
	_ "github.com/sboehler/knut/cmd/importer/swissquote"
	_ "github.com/sboehler/knut/cmd/importer/viac"
	_ "github.com/sboehler/knut/cmd/importer/wise"
	"github.com/sboehler/knut/lib/verifrt/vexit"
	"github.com/sboehler/knut/lib/verifrt/vmap"
	"github.com/sboehler/knut/lib/verifrt/vsched"
)

// Outcome of one command execution.
type Outcome struct {
	Stdout, Stderr string
	Exit           int    // process exit status the real binary would have
	Panic          string // non-empty: the command panicked (exit 2 + trace in the real binary)
	Deadlock       bool
	Horizon        bool
	Pruned         bool
	Blocked        []string
	Steps          int
	Goroutines     int
	MaxLive        int
	Leaked         int
	Trace          []string
}

// Key is the observable (stdout, exit, abnormal termination) used for determinism.
func (o *Outcome) Key() string {
	s := fmt.Sprintf("exit=%d", o.Exit)
	if o.Panic != "" {
		s += " PANIC"
	}
	if o.Deadlock {
		s += " DEADLOCK"
	}
	if o.Horizon {
		s += " HORIZON"
	}
	return s + "\n" + o.Stdout
}

func (o *Outcome) Abnormal() string {
	switch {
	case o.Panic != "":
		return "panic: " + firstLines(o.Panic, 12)
	case o.Deadlock:
		return "deadlock: " + strings.Join(o.Blocked, " ")
	case o.Horizon:
		return fmt.Sprintf("step horizon exceeded after %d scheduler steps (non-termination)", o.Steps)
	}
	return ""
}

func firstLines(s string, n int) string {
	ls := strings.Split(s, "\n")
	if len(ls) > n {
		ls = ls[:n]
	}
	return strings.Join(ls, "\n")
}

// Driver runs knut commands in-process on the instrumented build.
type Driver struct {
	Dir      string // scratch directory (cwd of the commands)
	outFile  *os.File
	errFile  *os.File
	Horizon  int
	TraceOps bool
	written  map[string]bool
}

// NewDriver creates a scratch directory under /dev/shm (or $KMC_SCRATCH).
func NewDriver(tag string) *Driver {
	base := os.Getenv("KMC_SCRATCH")
	if base == "" {
		base = "/dev/shm"
		if st, err := os.Stat(base); err != nil || !st.IsDir() {
			base = filepath.Join(Root, ".cache", "run")
		}
	}
	dir := filepath.Join(base, fmt.Sprintf("kmc-%s-%d", tag, os.Getpid()))
	os.RemoveAll(dir)
	if err := os.MkdirAll(filepath.Join(dir, "w"), 0o755); err != nil {
		panic(err)
	}
	mk := func(n string) *os.File {
		f, err := os.OpenFile(filepath.Join(dir, n), os.O_RDWR|os.O_CREATE|os.O_TRUNC, 0o644)
		if err != nil {
			panic(err)
		}
		return f
	}
	d := &Driver{Dir: filepath.Join(dir, "w"), outFile: mk("stdout"), errFile: mk("stderr"), written: map[string]bool{}}
	if err := os.Chdir(d.Dir); err != nil {
		panic(err)
	}
	return d
}

// Close removes the scratch directory.
func (d *Driver) Close() {
	os.Chdir("/")
	os.RemoveAll(filepath.Dir(d.Dir))
}

// Files replaces the content of the scratch directory by the given files
// (name -> content; names may contain sub-directories).
func (d *Driver) Files(files map[string]string) {
	for n := range d.written {
		if _, keep := files[n]; !keep {
			os.Remove(filepath.Join(d.Dir, n))
			delete(d.written, n)
		}
	}
	for n, c := range files {
		p := filepath.Join(d.Dir, n)
		if strings.Contains(n, "/") {
			os.MkdirAll(filepath.Dir(p), 0o755)
		}
		if err := os.WriteFile(p, []byte(c), 0o644); err != nil {
			panic(err)
		}
		d.written[n] = true
	}
}

// ReadFile reads a file of the scratch directory.
func (d *Driver) ReadFile(name string) (string, error) {
	b, err := os.ReadFile(filepath.Join(d.Dir, name))
	return string(b), err
}

func drain(f *os.File) string {
	n, _ := f.Seek(0, 1)
	if n == 0 {
		return ""
	}
	buf := make([]byte, n)
	f.ReadAt(buf, 0)
	f.Truncate(0)
	f.Seek(0, 0)
	return string(buf)
}

// Run executes `knut args...` under the given controllers (nil: default schedule,
// canonical map order).
func (d *Driver) Run(ctl *Ctx, args ...string) *Outcome {
	var sc vsched.Controller = zeroCtl{}
	if ctl != nil {
		sc = ctl
		if !ctl.NoMap {
			vmap.Ctl = ctl
		}
	}
	defer func() { vmap.Ctl = nil }()
	return d.run(sc, args)
}

type zeroCtl struct{}

func (zeroCtl) Choose(vsched.Kind, int, bool, func() string) int { return 0 }
func (zeroCtl) Visit(uint64) bool                                { return true }

// RunNative executes the command free-running on the real Go runtime (no scheduler):
// used by the race-detector tier.
func (d *Driver) RunNative(args ...string) *Outcome { return d.run(nil, args) }

func (d *Driver) run(sc vsched.Controller, args []string) *Outcome {
	// cobra's writers are left at their defaults (os.Stdout / os.Stderr, looked up at
	// call time) exactly as in main(); both are redirected to scratch files below
	out := &Outcome{}
	c := cmd.CreateCmd("verif")
	c.SetArgs(args)
	savedOut, savedErr := os.Stdout, os.Stderr
	os.Stdout, os.Stderr = d.outFile, d.errFile
	color.NoColor = true
	vexit.InProcess = true
	body := func() {
		defer func() {
			if r := recover(); r != nil {
				if vsched.IsKilled(r) {
					panic(r)
				}
				if code, ok := r.(vexit.Code); ok {
					out.Exit = code.Status
					return
				}
				out.Panic = fmt.Sprintf("%v\n%s", r, debug.Stack())
				out.Exit = 2
			}
		}()
		if err := c.Execute(); err != nil {
			// main(): fmt.Fprintln(c.ErrOrStderr(), err); os.Exit(1)
			fmt.Fprintln(c.ErrOrStderr(), err)
			out.Exit = 1
		}
	}
	var res vsched.Result
	if sc == nil {
		body()
	} else {
		res = vsched.Run(sc, vsched.Options{Horizon: d.Horizon, TraceOps: d.TraceOps}, body)
	}
	vexit.InProcess = false
	os.Stdout, os.Stderr = savedOut, savedErr
	out.Stdout = drain(d.outFile)
	out.Stderr = drain(d.errFile)
	out.Deadlock, out.Horizon, out.Blocked, out.Pruned = res.Deadlock, res.Horizon, res.Blocked, res.Pruned
	out.Steps, out.Goroutines, out.MaxLive, out.Leaked, out.Trace = res.Steps, res.Goroutines, res.MaxLive, res.Leaked, res.Trace
	if res.Crash != "" {
		out.Panic = res.Crash
		out.Exit = 2
	}
	if res.MainPanic != nil && out.Panic == "" {
		out.Panic = fmt.Sprint(res.MainPanic)
		out.Exit = 2
	}
	return out
}

// ---------------------------------------------------------------------------------
// Binary conformance: the uninstrumented knut binary built from /repo's working tree.

// BinaryPath is where `check` builds the plain binary.
var BinaryPath = filepath.Join(Root, ".cache", "bin", "knut-plain")

// RunBinaryLimited executes the real binary under an address-space limit and a
// deadline (for inputs that may make the program allocate or compute without bound:
// they cannot be run inside the harness process). A run that is still going at the
// deadline is killed and reported with Horizon set.
func (d *Driver) RunBinaryLimited(deadline time.Duration, asBytes int64, args ...string) *Outcome {
	ctx, cancel := context.WithTimeout(context.Background(), deadline)
	defer cancel()
	c := exec.CommandContext(ctx, "prlimit", append([]string{fmt.Sprintf("--as=%d", asBytes), BinaryPath}, args...)...)
	o := d.runCmd(c)
	if ctx.Err() != nil {
		o.Horizon = true
	}
	return o
}

// RunBinaryFree executes the real binary with all CPUs (the workers themselves run with
// GOMAXPROCS=1) under a deadline; Horizon is set when it had to be killed.
func (d *Driver) RunBinaryFree(deadline time.Duration, args ...string) *Outcome {
	ctx, cancel := context.WithTimeout(context.Background(), deadline)
	defer cancel()
	c := exec.CommandContext(ctx, BinaryPath, args...)
	for _, kv := range os.Environ() {
		if !strings.HasPrefix(kv, "GOMAXPROCS=") {
			c.Env = append(c.Env, kv)
		}
	}
	o := d.runCmd(c)
	if ctx.Err() != nil {
		o.Horizon = true
	}
	return o
}

// RunBinaryProcs executes the real binary with the given GOMAXPROCS ("" = all CPUs).
func (d *Driver) RunBinaryProcs(procs string, args ...string) *Outcome {
	c := exec.Command(BinaryPath, args...)
	for _, kv := range os.Environ() {
		if !strings.HasPrefix(kv, "GOMAXPROCS=") {
			c.Env = append(c.Env, kv)
		}
	}
	if procs != "" {
		c.Env = append(c.Env, "GOMAXPROCS="+procs)
	}
	return d.runCmd(c)
}

// RunBinary executes the real binary in the driver's scratch directory.
func (d *Driver) RunBinary(args ...string) *Outcome {
	return d.runCmd(exec.Command(BinaryPath, args...))
}

func (d *Driver) runCmd(c *exec.Cmd) *Outcome {
	c.Dir = d.Dir
	var so, se bytes.Buffer
	c.Stdout, c.Stderr = &so, &se
	err := c.Run()
	o := &Outcome{Stdout: so.String(), Stderr: se.String()}
	if err != nil {
		if ee, ok := err.(*exec.ExitError); ok {
			o.Exit = ee.ExitCode()
			if ws, ok := ee.Sys().(syscall.WaitStatus); ok && ws.Signaled() {
				o.Exit = 128 + int(ws.Signal())
			}
		} else {
			o.Exit = -1
			o.Stderr += err.Error()
		}
	}
	if strings.Contains(o.Stderr, "panic:") || strings.Contains(o.Stderr, "fatal error:") {
		o.Panic = firstLines(o.Stderr, 12)
	}
	return o
}
