// Package core: the choice-sequence explorer (stateless model checker), the
// in-process command driver, and the check/evidence plumbing shared by all checks.
package core

import (
	"fmt"
	"strings"

	"github.com/sboehler/knut/lib/verifrt/vmap"
	"github.com/sboehler/knut/lib/verifrt/vsched"
)

// ChoiceKind classifies a choice point for cost accounting.
type ChoiceKind int

const (
	CSched   ChoiceKind = iota // preemptive: running goroutine still enabled (alt != 0 is a preemption)
	CSwitch                    // forced switch: running goroutine blocked/exited, several others enabled
	CSelect                    // several ready select cases
	CPartner                   // several parked rendezvous partners
	CMap                       // map iteration order at one dynamic range statement
	CFault                     // injected fault yes/no
	nKinds
)

var kindNames = [...]string{"preempt", "switch", "select", "partner", "maporder", "fault"}

func (k ChoiceKind) String() string { return kindNames[k] }

// Choice is one recorded decision.
type Choice struct {
	Kind  ChoiceKind
	N     int
	Pick  int
	Label string
}

// Bounds: maximal number of non-default picks per cost class; -1 = unbounded.
type Bounds struct {
	Preempt int // CSched
	Free    int // CSwitch + CSelect + CPartner
	Map     int // CMap
	Fault   int // CFault
	Total   int // all classes together; 0 = no extra limit
}

func (b Bounds) String() string {
	return fmt.Sprintf("preempt<=%d free<=%d map<=%d fault<=%d total<=%d", b.Preempt, b.Free, b.Map, b.Fault, b.Total)
}

type cost [4]int

func classOf(k ChoiceKind) int {
	switch k {
	case CSched:
		return 0
	case CSwitch, CSelect, CPartner:
		return 1
	case CMap:
		return 2
	default:
		return 3
	}
}

func (b Bounds) allows(c cost) bool {
	lim := [4]int{b.Preempt, b.Free, b.Map, b.Fault}
	for i := range c {
		if lim[i] >= 0 && c[i] > lim[i] {
			return false
		}
	}
	return b.Total <= 0 || c.total() <= b.Total
}

func (c cost) total() int { return c[0] + c[1] + c[2] + c[3] }

// Ctx is the controller of one execution: it replays a prefix of picks and then
// takes the default (0) at every later choice point, recording everything.
type Ctx struct {
	prefix   []int
	Trace    []Choice
	Labels   bool
	Diverged string
	// MapPolicy, when set, replaces the canonical order at every map choice that is
	// beyond the prefix (global order policies; not explored further).
	MapPolicy func(n int) []int
	NoMap     bool // do not treat map order as a choice at all
	// FullPerm: map ranges of up to this many keys are explored with all n!
	// orders (default 4); FullPermSite restricts the larger limit to range
	// statements whose site contains the string.
	FullPerm     int
	FullPermSite string

	visit  func(sig uint64, used cost) bool // state cache of the explorer (nil: none)
	used   cost
	Pruned bool
}

// Visit implements vsched.Controller: consult the explorer's state cache for states
// reached beyond the replayed prefix.
func (c *Ctx) Visit(sig uint64) bool {
	if c.visit == nil || len(c.Trace) < len(c.prefix) {
		return true
	}
	if !c.visit(sig, c.used) {
		c.Pruned = true
		return false
	}
	return true
}

func (c *Ctx) choose(kind ChoiceKind, n int, label func() string) int {
	i := len(c.Trace)
	pick := 0
	if i < len(c.prefix) {
		pick = c.prefix[i]
		if pick >= n {
			c.Diverged = fmt.Sprintf("choice %d: replayed pick %d but only %d alternatives (%s)", i, pick, n, kind)
			pick = 0
		}
	}
	ch := Choice{Kind: kind, N: n, Pick: pick}
	if pick != 0 {
		c.used[classOf(kind)]++
	}
	if c.Labels && label != nil {
		ch.Label = label()
	}
	c.Trace = append(c.Trace, ch)
	return pick
}

// Choose implements vsched.Controller.
func (c *Ctx) Choose(kind vsched.Kind, n int, preempt bool, label func() string) int {
	switch kind {
	case vsched.KSched:
		if preempt {
			return c.choose(CSched, n, label)
		}
		return c.choose(CSwitch, n, label)
	case vsched.KSelect:
		return c.choose(CSelect, n, label)
	default:
		return c.choose(CPartner, n, label)
	}
}

// Fault asks whether to inject a fault at a named point.
func (c *Ctx) Fault(label string) bool {
	return c.choose(CFault, 2, func() string { return label }) == 1
}

// Order implements vmap.Controller.
func (c *Ctx) Order(site string, keys []string) []int {
	if c.NoMap {
		return nil
	}
	n := len(keys)
	if c.MapPolicy != nil && len(c.Trace) >= len(c.prefix) {
		return c.MapPolicy(n)
	}
	full := 4
	if c.FullPerm > full && (c.FullPermSite == "" || strings.Contains(site, c.FullPermSite)) {
		full = c.FullPerm
	}
	alts := permAlternatives(n, full)
	pick := c.choose(CMap, alts, func() string { return site + " [" + strings.Join(keys, ",") + "]" })
	if pick != 0 {
		vsched.Fold(uint64(len(c.Trace)), uint64(pick))
	}
	return permOf(n, pick, full)
}

var _ vsched.Controller = (*Ctx)(nil)
var _ vmap.Controller = (*Ctx)(nil)

// permAlternatives: n<=4: all n! permutations; else identity, reversal, n-1
// rotations, n-1 adjacent transpositions.
func permAlternatives(n, full int) int {
	switch {
	case n <= 1:
		return 1
	case n <= full:
		f := 1
		for i := 2; i <= n; i++ {
			f *= i
		}
		return f
	default:
		return 1 + 1 + (n - 1) + (n - 1)
	}
}

func permOf(n, k, full int) []int {
	p := make([]int, n)
	for i := range p {
		p[i] = i
	}
	if k == 0 {
		return p
	}
	if n <= full {
		// k-th permutation in lexicographic order (factorial number system)
		avail := append([]int(nil), p...)
		f := 1
		for i := 2; i < n; i++ {
			f *= i
		}
		for i := 0; i < n; i++ {
			j := k / f
			k %= f
			p[i] = avail[j]
			avail = append(avail[:j], avail[j+1:]...)
			if n-1-i > 0 {
				f /= (n - 1 - i)
			}
		}
		return p
	}
	switch {
	case k == 1:
		for i := range p {
			p[i] = n - 1 - i
		}
	case k < 1+n:
		r := k - 1 // rotation by r in 1..n-1
		for i := range p {
			p[i] = (i + r) % n
		}
	default:
		t := k - (1 + n) // transposition of t, t+1
		p[t], p[t+1] = p[t+1], p[t]
	}
	return p
}

// ReversePolicy / RotatePolicy are the two global map-order policies.
func ReversePolicy(n int) []int {
	p := make([]int, n)
	for i := range p {
		p[i] = n - 1 - i
	}
	return p
}

func RotatePolicy(n int) []int {
	p := make([]int, n)
	for i := range p {
		p[i] = (i + 1) % n
	}
	return p
}

// ExploreStats are the measured counts of one exploration.
type ExploreStats struct {
	Executions     int
	States         int // choice-tree nodes visited
	Transitions    int // choice-tree edges taken
	MaxDepth       int
	BoundCompleted int // all executions with total deviation count <= this were run
	Capped         bool
	PerKind        [nKinds]int // choice points seen per kind
	Diverged       []string
	Pruned         int // executions cut off at an already explored state
	CachedStates   int
}

func (s *ExploreStats) Add(o ExploreStats) {
	s.Executions += o.Executions
	s.States += o.States
	s.Transitions += o.Transitions
	if o.MaxDepth > s.MaxDepth {
		s.MaxDepth = o.MaxDepth
	}
	for i := range s.PerKind {
		s.PerKind[i] += o.PerKind[i]
	}
	s.Capped = s.Capped || o.Capped
	s.Pruned += o.Pruned
	s.CachedStates += o.CachedStates
	s.Diverged = append(s.Diverged, o.Diverged...)
}

// Explorer enumerates all executions of run whose deviation counts fit in Bounds,
// level by level (total deviations 0, 1, 2, ...).
type Explorer struct {
	Bounds   Bounds
	MaxExec  int         // 0: unlimited
	Stop     func() bool // polled between executions (deadline)
	Labels   bool
	NoMap    bool
	Policies bool // additionally run the two global map-order policies
	// FullPerm / FullPermSite: see Ctx.
	FullPerm     int
	FullPermSite string
	// Cache enables happens-before state caching: an execution that reaches a global
	// state (identified by the vsched signature) which was already reached with at
	// least the same remaining budgets is cut off there.
	Cache bool
}

// Explore calls run once per execution; visit receives the full pick sequence.
// visit returning false stops the exploration.
func (x *Explorer) Explore(run func(c *Ctx), visit func(c *Ctx) bool) ExploreStats {
	var st ExploreStats
	// The frontier holds one node per unexplored alternative: the pick sequence of the
	// execution that discovered it (shared by all its alternatives), the position and the
	// alternative. (Storing a full prefix per alternative costs gigabytes on executions
	// with thousands of choice points.) maxFrontier bounds it; beyond that the
	// exploration is reported as capped.
	type parentRec struct {
		picks []int
		live  int // alternatives of this execution still in the frontier
	}
	type node struct {
		parent *parentRec
		i, alt int
	}
	const maxFrontierBytes = 384 << 20 // pick sequences + nodes held by the frontier
	const maxCache = 2_000_000
	frontierBytes := 0
	incompleteFrom := 1 << 30
	levels := [][]node{{{alt: -1}}}
	st.BoundCompleted = -1
	st.States = 1
	stop := false
	var cache map[uint64][][5]int
	var visitFn func(sig uint64, used cost) bool
	if x.Cache {
		cache = map[uint64][][5]int{}
		lim := [4]int{x.Bounds.Preempt, x.Bounds.Free, x.Bounds.Map, x.Bounds.Fault}
		visitFn = func(sig uint64, used cost) bool {
			// remaining budget per class and in total (unbounded ones never constrain)
			var rem [5]int
			for i := 0; i < 4; i++ {
				if lim[i] < 0 {
					rem[i] = 1 << 30
				} else {
					rem[i] = lim[i] - used[i]
				}
			}
			rem[4] = 1 << 30
			if x.Bounds.Total > 0 {
				rem[4] = x.Bounds.Total - used.total()
			}
			for _, old := range cache[sig] {
				if old[0] >= rem[0] && old[1] >= rem[1] && old[2] >= rem[2] && old[3] >= rem[3] && old[4] >= rem[4] {
					return false
				}
			}
			if len(cache) < maxCache {
				cache[sig] = append(cache[sig], rem)
			}
			return true
		}
	}
	for lvl := 0; lvl < len(levels) && !stop; lvl++ {
		for len(levels[lvl]) > 0 && !stop {
			q := levels[lvl]
			nd := q[len(q)-1]
			levels[lvl] = q[:len(q)-1]
			prefix := []int{}
			if nd.alt >= 0 {
				prefix = make([]int, nd.i+1)
				copy(prefix, nd.parent.picks[:nd.i])
				prefix[nd.i] = nd.alt
				frontierBytes -= 32
				if nd.parent.live--; nd.parent.live == 0 {
					frontierBytes -= 8*len(nd.parent.picks) + 48
				}
			}
			if (x.MaxExec > 0 && st.Executions >= x.MaxExec) || (x.Stop != nil && x.Stop()) {
				st.Capped = true
				stop = true
				break
			}
			c := &Ctx{prefix: prefix, Labels: x.Labels, NoMap: x.NoMap, visit: visitFn, FullPerm: x.FullPerm, FullPermSite: x.FullPermSite}
			run(c)
			st.Executions++
			if c.Pruned {
				st.Pruned++
			}
			if c.Diverged != "" {
				st.Diverged = append(st.Diverged, c.Diverged)
			}
			if len(c.Trace) > st.MaxDepth {
				st.MaxDepth = len(c.Trace)
			}
			if len(c.Trace) > len(prefix) {
				st.States += len(c.Trace) - len(prefix)
				st.Transitions += len(c.Trace) - len(prefix)
			}
			if !visit(c) {
				stop = true
				break
			}
			var used cost
			var par *parentRec
			for i, ch := range c.Trace {
				if i >= len(prefix) {
					st.PerKind[ch.Kind]++
					for alt := 1; alt < ch.N; alt++ {
						nc := used
						nc[classOf(ch.Kind)]++
						if !x.Bounds.allows(nc) {
							break
						}
						if frontierBytes >= maxFrontierBytes {
							st.Capped = true
							if t := nc.total(); t < incompleteFrom {
								incompleteFrom = t // this and all later levels lose alternatives
							}
							break
						}
						if par == nil {
							par = &parentRec{picks: c.Picks()}
							frontierBytes += 8*len(par.picks) + 48
						}
						t := nc.total()
						for len(levels) <= t {
							levels = append(levels, nil)
						}
						levels[t] = append(levels[t], node{par, i, alt})
						par.live++
						frontierBytes += 32
						st.States++
						st.Transitions++
					}
				}
				if ch.Pick != 0 {
					used[classOf(ch.Kind)]++
				}
			}
		}
		if !stop && lvl < incompleteFrom {
			st.BoundCompleted = lvl
		}
	}
	st.CachedStates = len(cache)
	if !stop && x.Policies && !x.NoMap {
		for _, pol := range []func(int) []int{ReversePolicy, RotatePolicy} {
			c := &Ctx{Labels: x.Labels, MapPolicy: pol}
			run(c)
			st.Executions++
			if !visit(c) {
				break
			}
		}
	}
	return st
}

// Picks returns the pick sequence of an execution (the replay artefact).
func (c *Ctx) Picks() []int {
	p := make([]int, len(c.Trace))
	for i, ch := range c.Trace {
		p[i] = ch.Pick
	}
	// trim trailing zeros: defaults need not be recorded
	n := len(p)
	for n > 0 && p[n-1] == 0 {
		n--
	}
	return p[:n]
}

// NewReplayCtx builds a controller that replays the given picks.
func NewReplayCtx(picks []int, labels bool) *Ctx { return &Ctx{prefix: picks, Labels: labels} }

// NewReplayCtxNoMap replays picks that were recorded without map-order choice points.
func NewReplayCtxNoMap(picks []int, labels bool) *Ctx {
	return &Ctx{prefix: picks, Labels: labels, NoMap: true}
}

// Describe renders the non-default decisions of an execution.
func (c *Ctx) Describe() []string {
	var res []string
	for i, ch := range c.Trace {
		if ch.Pick != 0 {
			res = append(res, fmt.Sprintf("#%d %s pick %d/%d %s", i, ch.Kind, ch.Pick, ch.N, ch.Label))
		}
	}
	return res
}
