package main

import (
	"bytes"
	"fmt"
	"os"

	"github.com/sboehler/knut/cmd"
	_ "github.com/sboehler/knut/cmd/importer/cumulus"
	"github.com/sboehler/knut/lib/verifrt/vexit"
	"github.com/sboehler/knut/lib/verifrt/vsched"
)

type ctl struct{}

func (ctl) Choose(k vsched.Kind, n int, p bool, l func() string) int { return 0 }

func main() {
	c := cmd.CreateCmd("verif")
	var out, errb bytes.Buffer
	c.SetOut(&out)
	c.SetErr(&errb)
	c.SetArgs(os.Args[1:])
	vexit.InProcess = true
	res := vsched.Run(ctl{}, vsched.Options{TraceOps: true}, func() {
		defer func() {
			if r := recover(); r != nil {
				if code, ok := r.(vexit.Code); ok {
					fmt.Println("exit", code.Status)
					return
				}
				panic(r)
			}
		}()
		if err := c.Execute(); err != nil {
			fmt.Println("ERR", err)
		}
	})
	fmt.Printf("steps=%d gs=%d deadlock=%v crash=%q leaked=%d\n", res.Steps, res.Goroutines, res.Deadlock, res.Crash, res.Leaked)
	for _, l := range res.Trace {
		fmt.Println("  ", l)
	}
	fmt.Print(out.String())
	fmt.Print("STDERR:", errb.String())
}
