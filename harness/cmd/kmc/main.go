// kmc is the model-checking harness for sboehler/knut (see /verif/DESIGN.md).
package main

import (
	"os"

	_ "kmc/checks"
	"kmc/core"
)

func main() { os.Exit(core.Main(os.Args[1:])) }
