// kmc is the model-checking harness for sboehler/knut (see /verif/DESIGN.md).
package main

import (
	"os"

	"kmc/checks"
	"kmc/core"
)

func main() {
	if len(os.Args) > 2 && os.Args[1] == "explore" {
		os.Exit(checks.Explore(os.Args[2:]))
	}
	if len(os.Args) > 2 && os.Args[1] == "racerun" {
		os.Exit(checks.RaceRun(os.Args[2:]))
	}
	os.Exit(core.Main(os.Args[1:]))
}
