module kmc

go 1.21

require (
	github.com/anishathalye/porcupine v1.3.0
	github.com/fatih/color v1.15.0
	github.com/sboehler/knut v0.0.0
	github.com/shopspring/decimal v1.3.1
	github.com/sourcegraph/conc v0.3.0
	github.com/spf13/cobra v1.7.0
	golang.org/x/sync v0.3.0
)

require (
	github.com/VividCortex/ewma v1.2.0 // indirect
	github.com/cheggaaa/pb/v3 v3.1.4 // indirect
	github.com/dimchansky/utfbom v1.1.1 // indirect
	github.com/mattn/go-colorable v0.1.13 // indirect
	github.com/mattn/go-isatty v0.0.19 // indirect
	github.com/mattn/go-runewidth v0.0.15 // indirect
	github.com/natefinch/atomic v1.0.1 // indirect
	github.com/rivo/uniseg v0.4.4 // indirect
	github.com/spf13/pflag v1.0.5 // indirect
	go.uber.org/multierr v1.11.0 // indirect
	golang.org/x/exp v0.0.0-20230817173708-d852ddb80c63 // indirect
	golang.org/x/sys v0.11.0 // indirect
	golang.org/x/text v0.12.0 // indirect
	gopkg.in/yaml.v2 v2.4.0 // indirect
)

replace github.com/sboehler/knut => /repo

replace github.com/sourcegraph/conc => ../shims/conc

replace golang.org/x/sync => ../shims/xsync
