// Package litmus ties the substituted concurrency runtime (vsched, vsync and the
// conc/errgroup shims) to the real Go runtime and the real libraries: every litmus
// program is run (a) natively many times — real goroutines, real channels, and for the
// pool/errgroup programs the REAL conc v0.3.0 / x/sync v0.3.0 sources — and (b)
// exhaustively under vsched with the shims. Every natively observed outcome must be
// among the explored outcomes, and the explored outcome set must equal the set derived
// by hand from the Go specification / library documentation.
package litmus

import (
	"context"
	"errors"
	"fmt"
	"sort"
	"strings"

	"kmc/core"
	realpool "kmc/realdeps/conc/pool"
	realgroup "kmc/realdeps/errgroup"

	"github.com/sboehler/knut/lib/verifrt/vsched"
	sync "github.com/sboehler/knut/lib/verifrt/vsync"
	shimpool "github.com/sourcegraph/conc/pool"
	shimgroup "golang.org/x/sync/errgroup"
)

type ctxPool interface {
	Go(func(context.Context) error)
	Wait() error
}

type group interface {
	Go(func() error)
	Wait() error
}

type libs struct {
	pool  func(ctx context.Context, cancelOnError bool) ctxPool
	group func(ctx context.Context) (group, context.Context)
}

var realLibs = libs{
	pool: func(ctx context.Context, c bool) ctxPool {
		if c {
			return realpool.New().WithContext(ctx).WithCancelOnError().WithFirstError()
		}
		return realpool.New().WithErrors().WithFirstError().WithContext(ctx)
	},
	group: func(ctx context.Context) (group, context.Context) { return realgroup.WithContext(ctx) },
}

var shimLibs = libs{
	pool: func(ctx context.Context, c bool) ctxPool {
		if c {
			return shimpool.New().WithContext(ctx).WithCancelOnError().WithFirstError()
		}
		return shimpool.New().WithErrors().WithFirstError().WithContext(ctx)
	},
	group: func(ctx context.Context) (group, context.Context) { return shimgroup.WithContext(ctx) },
}

type program struct {
	name   string
	body   func(l libs) string
	expect []string
}

var errA, errB = errors.New("A"), errors.New("B")

func programs() []program {
	return []program{
		{"L1 unbuffered ping-pong", func(l libs) string {
			a, b := vsched.NewChan[int](0), vsched.NewChan[int](0)
			vsched.Go(func() { v := a.Recv(); b.Send(v + 1) })
			a.Send(1)
			return fmt.Sprint(b.Recv())
		}, []string{"2"}},
		{"L2 buffered producer/consumer keeps FIFO order", func(l libs) string {
			c := vsched.NewChan[int](1)
			vsched.Go(func() {
				for i := 0; i < 3; i++ {
					c.Send(i)
				}
				c.Close()
			})
			var got []string
			for v, ok := c.Recv2(); ok; v, ok = c.Recv2() {
				got = append(got, fmt.Sprint(v))
			}
			return strings.Join(got, ",")
		}, []string{"0,1,2"}},
		{"L3 close wakes a parked receiver with the zero value", func(l libs) string {
			c := vsched.NewChan[int](0)
			done := vsched.NewChan[string](0)
			vsched.Go(func() { v, ok := c.Recv2(); done.Send(fmt.Sprint(v, ok)) })
			c.Close()
			return done.Recv()
		}, []string{"0 false"}},
		{"L4 select: send races with cancellation", func(l libs) string {
			ctx, cancel := context.WithCancel(context.Background())
			vsched.NewCtx(ctx)
			c := vsched.NewChan[int](0)
			res := vsched.NewChan[string](1)
			vsched.Go(func() {
				switch s := vsched.Select(vsched.RecvCase(c), vsched.DoneCase(ctx)); s.Index {
				case 0:
					v, _ := c.TakeRecv(s)
					res.Send(fmt.Sprint("recv", v))
				default:
					res.Send("cancelled")
				}
			})
			vsched.Go(func() {
				switch s := vsched.Select(vsched.SendCase(c, 7), vsched.DoneCase(ctx)); s.Index {
				case 0, 1:
				}
			})
			vsched.Yield()
			vsched.Cancelling(ctx)
			cancel()
			return res.Recv()
		}, []string{"cancelled", "recv7"}},
		{"L5 pool: first real error wins over context.Canceled, siblings are cancelled", func(l libs) string {
			p := l.pool(context.Background(), true)
			p.Go(func(ctx context.Context) error { return errA })
			p.Go(func(ctx context.Context) error {
				switch vsched.Select(vsched.DoneCase(ctx)).Index {
				}
				return vsched.CtxErr(ctx)
			})
			return fmt.Sprint(p.Wait())
		}, []string{"A"}},
		{"L5b pool without cancel-on-error: other task finishes, first error reported", func(l libs) string {
			p := l.pool(context.Background(), false)
			c := vsched.NewChan[int](0)
			p.Go(func(ctx context.Context) error { defer c.Close(); return errA })
			p.Go(func(ctx context.Context) error {
				c.Recv2()
				if vsched.CtxErr(ctx) != nil {
					return errors.New("unexpected cancel")
				}
				return errB
			})
			return fmt.Sprint(p.Wait())
		}, []string{"A", "B"}},
		{"L6 errgroup: exactly one of two errors wins, context is cancelled", func(l libs) string {
			g, ctx := l.group(context.Background())
			g.Go(func() error { return errA })
			g.Go(func() error { return errB })
			err := g.Wait()
			return fmt.Sprint(err, ctx.Err() != nil)
		}, []string{"A true", "B true"}},
		{"L7 pool: a panicking task is re-raised by Wait", func(l libs) (out string) {
			defer func() {
				if r := recover(); r != nil {
					if vsched.IsKilled(r) {
						panic(r)
					}
					out = "panic in Wait"
				}
			}()
			p := l.pool(context.Background(), true)
			p.Go(func(ctx context.Context) error { panic("boom") })
			p.Go(func(ctx context.Context) error { return nil })
			return fmt.Sprint(p.Wait())
		}, []string{"panic in Wait"}},
		{"L8 RWMutex: writer excludes readers", func(l libs) string {
			var mu sync.RWMutex
			x, y := 0, 0
			res := vsched.NewChan[string](2)
			reader := func() {
				mu.RLock()
				a, b := x, y
				mu.RUnlock()
				res.Send(fmt.Sprint(a, b))
			}
			vsched.Go(reader)
			vsched.Go(reader)
			mu.Lock()
			x = 1
			vsched.Yield()
			y = 1
			mu.Unlock()
			r := []string{res.Recv(), res.Recv()}
			sort.Strings(r)
			return strings.Join(r, "|")
		}, []string{"0 0|0 0", "0 0|1 1", "1 1|1 1"}},
		{"L10 RWMutex: a pending writer blocks new readers", func(l libs) string {
			var mu sync.RWMutex
			res := vsched.NewChan[string](1)
			done := vsched.NewChan[int](1)
			mu.RLock()
			vsched.Go(func() { mu.Lock(); mu.Unlock(); done.Send(1) })
			vsched.Go(func() {
				ok := mu.TryRLock()
				if ok {
					mu.RUnlock()
				}
				res.Send(fmt.Sprint(ok))
			})
			r := res.Recv()
			mu.RUnlock()
			done.Recv()
			return r
		}, []string{"false", "true"}},
		{"L9 WaitGroup and Once", func(l libs) string {
			var wg sync.WaitGroup
			var once sync.Once
			var mu sync.Mutex
			n, inits := 0, 0
			for i := 0; i < 3; i++ {
				wg.Add(1)
				vsched.Go(func() {
					defer wg.Done()
					once.Do(func() { inits++ })
					mu.Lock()
					n++
					mu.Unlock()
				})
			}
			wg.Wait()
			return fmt.Sprint(n, inits)
		}, []string{"3 1"}},
	}
}

// Selftest runs every litmus program natively and exhaustively; it returns the
// number of explored executions and a list of failures.
func Selftest(nativeRuns int) (executions int, failures []string) {
	for _, p := range programs() {
		native := map[string]bool{}
		for i := 0; i < nativeRuns; i++ {
			native[runNative(p)] = true
		}
		explored := map[string]bool{}
		x := core.Explorer{Bounds: core.Bounds{Preempt: -1, Free: -1}, NoMap: true, Cache: true, MaxExec: 200000}
		st := x.Explore(func(c *core.Ctx) {
			var out string
			res := vsched.Run(c, vsched.Options{}, func() { out = p.body(shimLibs) })
			switch {
			case res.Pruned:
				return
			case res.Deadlock:
				out = "DEADLOCK " + strings.Join(res.Blocked, " ")
			case res.Horizon:
				out = "HORIZON"
			case res.Crash != "":
				out = "CRASH " + res.Crash
			case res.MainPanic != nil:
				out = fmt.Sprint("PANIC ", res.MainPanic)
			}
			explored[out] = true
		}, func(c *core.Ctx) bool { return true })
		executions += st.Executions
		if st.Capped {
			failures = append(failures, p.name+": exploration capped")
		}
		for o := range native {
			if !explored[o] {
				failures = append(failures, fmt.Sprintf("%s: the real runtime/library produced %q which the model never produces (explored %v)", p.name, o, keys(explored)))
			}
		}
		want := map[string]bool{}
		for _, o := range p.expect {
			want[o] = true
			if !explored[o] {
				failures = append(failures, fmt.Sprintf("%s: expected outcome %q was not explored (explored %v)", p.name, o, keys(explored)))
			}
		}
		for o := range explored {
			if !want[o] {
				failures = append(failures, fmt.Sprintf("%s: the model produces %q which the specification does not allow", p.name, o))
			}
		}
	}
	return
}

func runNative(p program) (out string) {
	defer func() {
		if r := recover(); r != nil {
			out = fmt.Sprint("PANIC ", r)
		}
	}()
	return p.body(realLibs)
}

func keys(m map[string]bool) []string {
	var ks []string
	for k := range m {
		ks = append(ks, k)
	}
	sort.Strings(ks)
	return ks
}
