// Package jr is the harness's own structured representation of a knut journal.
// Generated journals are values of these types; text is produced by Render, and all
// reference computations run on the structured value (no second parser is trusted).
package jr

import (
	"fmt"
	"strings"
)

type Kind int

const (
	Open Kind = iota
	Close
	Trx
	Assert
	Price
	Include
)

func (k Kind) String() string {
	return [...]string{"open", "close", "trx", "balance", "price", "include"}[k]
}

type Booking struct{ Credit, Debit, Qty, Com string }

type Bal struct{ Acc, Qty, Com string }

type Accrual struct{ Interval, Start, End, Acc string }

// Dir is one directive.
type Dir struct {
	Kind Kind
	Date string `json:",omitempty"`

	Acc string `json:",omitempty"` // open, close

	Desc    string    `json:",omitempty"`
	Books   []Booking `json:",omitempty"`
	HasPerf bool      `json:",omitempty"`
	Perf    []string  `json:",omitempty"`
	Accrue  *Accrual  `json:",omitempty"`

	Bals      []Bal `json:",omitempty"`
	MultiLine bool  `json:",omitempty"` // render a single balance in the multi-line form

	Com   string `json:",omitempty"` // price
	Price string `json:",omitempty"`
	Tgt   string `json:",omitempty"`

	Path string `json:",omitempty"` // include
}

// Render returns the directive in knut's concrete syntax, terminated so that the
// next directive can follow directly.
func (d Dir) Render() string {
	var b strings.Builder
	switch d.Kind {
	case Open:
		fmt.Fprintf(&b, "%s open %s\n", d.Date, d.Acc)
	case Close:
		fmt.Fprintf(&b, "%s close %s\n", d.Date, d.Acc)
	case Price:
		fmt.Fprintf(&b, "%s price %s %s %s\n", d.Date, d.Com, d.Price, d.Tgt)
	case Include:
		fmt.Fprintf(&b, "include \"%s\"\n", d.Path)
	case Assert:
		if len(d.Bals) == 1 && !d.MultiLine {
			fmt.Fprintf(&b, "%s balance %s %s %s\n", d.Date, d.Bals[0].Acc, d.Bals[0].Qty, d.Bals[0].Com)
		} else {
			fmt.Fprintf(&b, "%s balance\n", d.Date)
			for _, bl := range d.Bals {
				fmt.Fprintf(&b, "%s %s %s\n", bl.Acc, bl.Qty, bl.Com)
			}
			b.WriteString("\n")
		}
	case Trx:
		if d.Accrue != nil {
			fmt.Fprintf(&b, "@accrue %s %s %s %s\n", d.Accrue.Interval, d.Accrue.Start, d.Accrue.End, d.Accrue.Acc)
		}
		if d.HasPerf {
			fmt.Fprintf(&b, "@performance(%s)\n", strings.Join(d.Perf, ","))
		}
		fmt.Fprintf(&b, "%s \"%s\"\n", d.Date, d.Desc)
		for _, bk := range d.Books {
			fmt.Fprintf(&b, "%s %s %s %s\n", bk.Credit, bk.Debit, bk.Qty, bk.Com)
		}
		b.WriteString("\n")
	}
	return b.String()
}

// RenderAll renders a directive list as one file.
func RenderAll(ds []Dir) string {
	var b strings.Builder
	for _, d := range ds {
		b.WriteString(d.Render())
	}
	return b.String()
}

// Short is a compact one-line description for samples and violation messages.
func (d Dir) Short() string {
	return strings.ReplaceAll(strings.TrimSpace(d.Render()), "\n", " / ")
}

func ShortAll(ds []Dir) []string {
	res := make([]string, len(ds))
	for i, d := range ds {
		res[i] = d.Short()
	}
	return res
}

// Convenience constructors -----------------------------------------------------------

func O(date, acc string) Dir { return Dir{Kind: Open, Date: date, Acc: acc} }
func C(date, acc string) Dir { return Dir{Kind: Close, Date: date, Acc: acc} }
func P(date, com, price, tgt string) Dir {
	return Dir{Kind: Price, Date: date, Com: com, Price: price, Tgt: tgt}
}
func T(date, desc string, books ...Booking) Dir {
	return Dir{Kind: Trx, Date: date, Desc: desc, Books: books}
}
func B(credit, debit, qty, com string) Booking { return Booking{credit, debit, qty, com} }
func A(date string, bals ...Bal) Dir           { return Dir{Kind: Assert, Date: date, Bals: bals} }

// AccountType returns the first segment of an account name.
func AccountType(acc string) string {
	if i := strings.IndexByte(acc, ':'); i >= 0 {
		return acc[:i]
	}
	return acc
}

func IsAL(acc string) bool {
	t := AccountType(acc)
	return t == "Assets" || t == "Liabilities"
}

func IsIE(acc string) bool {
	t := AccountType(acc)
	return t == "Income" || t == "Expenses"
}
