#!/bin/bash
# Copies the REAL conc v0.3.0 / x/sync v0.3.0 sources from the module cache into
# harness/realdeps under a different import path, so that litmus programs can run the
# same body against the real libraries (natively) and against the vsched shims
# (exhaustively). Generated, not committed.
set -euo pipefail
cd "$(dirname "${BASH_SOURCE[0]}")"
MC="$(GOFLAGS=-mod=mod go env GOMODCACHE)"
SRC="$MC/github.com/sourcegraph/conc@v0.3.0"
DST=harness/realdeps
rm -rf "$DST"; mkdir -p "$DST/conc/pool" "$DST/conc/panics" "$DST/conc/internal/multierror" "$DST/errgroup"
cp "$SRC"/waitgroup.go "$DST/conc/"
for d in pool panics internal/multierror; do
  for f in "$SRC/$d"/*.go; do case "$f" in *_test.go) ;; *) cp "$f" "$DST/conc/$d/";; esac; done
done
for f in "$MC/golang.org/x/sync@v0.3.0/errgroup"/*.go; do case "$f" in *_test.go) ;; *) cp "$f" "$DST/errgroup/";; esac; done
chmod -R u+w "$DST"
find "$DST" -name '*.go' | xargs sed -i 's#"github.com/sourcegraph/conc#"kmc/realdeps/conc#g'
