#!/bin/bash
# Run once after a fresh restore (offline): builds the generator, the overlay, the
# instrumented harness and the plain knut binary into /verif/.cache.
set -euo pipefail
cd "$(dirname "${BASH_SOURCE[0]}")"
mkdir -p .cache evidence replays
KMC_FORCE=1 ./build.sh race
.cache/bin/kmc list >/dev/null
echo "setup ok"
