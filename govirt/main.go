// govirt generates a `go build -overlay` file that virtualises every source of
// nondeterminism in the knut module, from /repo's *current working tree*:
//
//   - every `for ... range m` over a map   -> vmap.Iter (explorer-chosen order)
//   - channel types/ops, select, go        -> vsched (cooperative scheduler)
//   - import "sync"                        -> vsync
//   - os.Exit in cmd/... and main          -> vexit.Exit
//
// The runtime packages live under /verif/rt and are mapped into the knut import
// tree as virtual packages github.com/sboehler/knut/lib/verifrt/{vmap,...}.
//
// Usage: govirt -repo /repo -rt /verif/rt -out /verif/.cache/overlay [-mutant patchdir]
package main

import (
	"bytes"
	"encoding/json"
	"flag"
	"fmt"
	"go/ast"
	"go/format"
	"go/token"
	"go/types"
	"os"
	"path/filepath"
	"sort"
	"strconv"
	"strings"

	"golang.org/x/tools/go/ast/astutil"
	"golang.org/x/tools/go/packages"
)

const rtImport = "github.com/sboehler/knut/lib/verifrt/"

type stats struct {
	MapRanges, ChanTypes, Makes, Sends, Recvs, Closes, RangeChans, Selects, Gos, SyncImports, Exits int
	Files                                                                                          int
	Sites                                                                                          []string
}

func main() {
	repo := flag.String("repo", "/repo", "knut working tree")
	rt := flag.String("rt", "/verif/rt", "runtime package sources")
	out := flag.String("out", "/verif/.cache/overlay", "output directory")
	flag.Parse()

	if err := run(*repo, *rt, *out); err != nil {
		fmt.Fprintln(os.Stderr, "govirt:", err)
		os.Exit(2)
	}
}

func run(repo, rt, out string) error {
	if err := os.RemoveAll(out); err != nil {
		return err
	}
	if err := os.MkdirAll(out, 0o755); err != nil {
		return err
	}
	fset := token.NewFileSet()
	cfg := &packages.Config{
		Mode: packages.NeedName | packages.NeedFiles | packages.NeedCompiledGoFiles | packages.NeedSyntax |
			packages.NeedTypes | packages.NeedTypesInfo | packages.NeedImports | packages.NeedDeps,
		Dir:  repo,
		Fset: fset,
		Env:  append(os.Environ(), "GOFLAGS=-mod=mod", "GOPROXY=off", "GOSUMDB=off", "GOTOOLCHAIN=local"),
	}
	pkgs, err := packages.Load(cfg, "./...")
	if err != nil {
		return err
	}
	var st stats
	replace := map[string]string{}
	var errs []string
	for _, p := range pkgs {
		if strings.HasSuffix(p.PkgPath, "/scripts") {
			continue
		}
		for _, e := range p.Errors {
			errs = append(errs, e.Error())
		}
		for i, f := range p.Syntax {
			fn := p.CompiledGoFiles[i]
			if !strings.HasPrefix(fn, repo+"/") || strings.HasSuffix(fn, "_test.go") {
				continue
			}
			rel := strings.TrimPrefix(fn, repo+"/")
			r := &rewriter{fset: fset, info: p.TypesInfo, pkg: p, rel: rel, st: &st}
			changed, err := r.rewriteFile(f)
			if err != nil {
				return fmt.Errorf("%s: %v", rel, err)
			}
			if !changed {
				continue
			}
			var buf bytes.Buffer
			f.Comments = keepHeaderComments(f)
			if err := format.Node(&buf, fset, f); err != nil {
				return fmt.Errorf("%s: printing: %v", rel, err)
			}
			dst := filepath.Join(out, "src", rel)
			if err := os.MkdirAll(filepath.Dir(dst), 0o755); err != nil {
				return err
			}
			if err := os.WriteFile(dst, buf.Bytes(), 0o644); err != nil {
				return err
			}
			replace[fn] = dst
			st.Files++
		}
	}
	if len(errs) > 0 {
		return fmt.Errorf("package errors:\n%s", strings.Join(errs, "\n"))
	}
	// virtual runtime packages
	for _, name := range []string{"vmap", "vexit", "vsched", "vsync"} {
		files, _ := filepath.Glob(filepath.Join(rt, name, "*.go"))
		for _, f := range files {
			if strings.HasSuffix(f, "_test.go") {
				continue
			}
			replace[filepath.Join(repo, "lib", "verifrt", name, filepath.Base(f))] = f
		}
	}
	js, _ := json.MarshalIndent(map[string]any{"Replace": replace}, "", " ")
	if err := os.WriteFile(filepath.Join(out, "overlay.json"), js, 0o644); err != nil {
		return err
	}
	sort.Strings(st.Sites)
	sj, _ := json.MarshalIndent(st, "", " ")
	return os.WriteFile(filepath.Join(out, "stats.json"), sj, 0o644)
}

func keepHeaderComments(f *ast.File) []*ast.CommentGroup {
	var res []*ast.CommentGroup
	for _, cg := range f.Comments {
		if cg.End() < f.Package {
			res = append(res, cg)
		}
	}
	return res
}

type rewriter struct {
	fset *token.FileSet
	info *types.Info
	pkg  *packages.Package
	rel  string
	st   *stats

	n                             int
	needVmap, needVsched, needExit bool
	changed                       bool
	err                           error
	commStmts                     map[*ast.ExprStmt]bool
	commRecv                      map[*ast.UnaryExpr]bool
}

func (r *rewriter) fresh(p string) string {
	r.n++
	return fmt.Sprintf("vv%s%d", p, r.n)
}

func (r *rewriter) site(pos token.Pos) string {
	return fmt.Sprintf("%s:%d", r.rel, r.fset.Position(pos).Line)
}

func (r *rewriter) typeOf(e ast.Expr) types.Type {
	if tv, ok := r.info.Types[e]; ok {
		return tv.Type
	}
	if id, ok := e.(*ast.Ident); ok {
		if o := r.info.ObjectOf(id); o != nil {
			return o.Type()
		}
	}
	return nil
}

func coreType(t types.Type) types.Type {
	if t == nil {
		return nil
	}
	if tp, ok := t.(*types.TypeParam); ok {
		// core type of a type parameter: single underlying type of its type set
		iface := tp.Constraint().Underlying().(*types.Interface)
		var core types.Type
		for i := 0; i < iface.NumEmbeddeds(); i++ {
			if u, ok := iface.EmbeddedType(i).(*types.Union); ok && u.Len() == 1 {
				core = u.Term(0).Type().Underlying()
			}
		}
		return core
	}
	return t.Underlying()
}

func (r *rewriter) isMap(e ast.Expr) bool {
	_, ok := coreType(r.typeOf(e)).(*types.Map)
	return ok
}

func (r *rewriter) isChan(e ast.Expr) bool {
	_, ok := coreType(r.typeOf(e)).(*types.Chan)
	return ok
}

func sel(pkg, name string) *ast.SelectorExpr {
	return &ast.SelectorExpr{X: ast.NewIdent(pkg), Sel: ast.NewIdent(name)}
}

func call(fun ast.Expr, args ...ast.Expr) *ast.CallExpr {
	return &ast.CallExpr{Fun: fun, Args: args}
}

func strLit(s string) *ast.BasicLit {
	return &ast.BasicLit{Kind: token.STRING, Value: strconv.Quote(s)}
}

func isBlank(e ast.Expr) bool {
	if e == nil {
		return true
	}
	id, ok := e.(*ast.Ident)
	return ok && id.Name == "_"
}

func (r *rewriter) isPkgSel(e ast.Expr, pkgPath, name string) bool {
	s, ok := e.(*ast.SelectorExpr)
	if !ok || s.Sel.Name != name {
		return false
	}
	id, ok := s.X.(*ast.Ident)
	if !ok {
		return false
	}
	pn, ok := r.info.ObjectOf(id).(*types.PkgName)
	return ok && pn.Imported().Path() == pkgPath
}

func (r *rewriter) isBuiltin(e ast.Expr, name string) bool {
	id, ok := e.(*ast.Ident)
	if !ok || id.Name != name {
		return false
	}
	_, ok = r.info.ObjectOf(id).(*types.Builtin)
	return ok
}

// isCtxDone reports whether e is `<-X.Done()` with X a context.Context and returns X.
func (r *rewriter) isCtxDone(e ast.Expr) (ast.Expr, bool) {
	u, ok := e.(*ast.UnaryExpr)
	if !ok || u.Op != token.ARROW {
		return nil, false
	}
	c, ok := u.X.(*ast.CallExpr)
	if !ok || len(c.Args) != 0 {
		return nil, false
	}
	s, ok := c.Fun.(*ast.SelectorExpr)
	if !ok || s.Sel.Name != "Done" {
		return nil, false
	}
	t := r.typeOf(s.X)
	if t == nil || t.String() != "context.Context" {
		return nil, false
	}
	return s.X, true
}

// isCtxErr reports whether c is X.Err() with X a context.Context.
func (r *rewriter) isCtxErr(c *ast.CallExpr) bool {
	if len(c.Args) != 0 {
		return false
	}
	s, ok := c.Fun.(*ast.SelectorExpr)
	if !ok || s.Sel.Name != "Err" {
		return false
	}
	t := r.typeOf(s.X)
	return t != nil && t.String() == "context.Context"
}

func (r *rewriter) fail(pos token.Pos, format string, a ...any) {
	if r.err == nil {
		r.err = fmt.Errorf("%s: %s", r.fset.Position(pos), fmt.Sprintf(format, a...))
	}
}

func simpleExpr(e ast.Expr) bool {
	switch x := e.(type) {
	case *ast.Ident:
		return true
	case *ast.SelectorExpr:
		return simpleExpr(x.X)
	case *ast.ParenExpr:
		return simpleExpr(x.X)
	}
	return false
}

func (r *rewriter) rewriteFile(f *ast.File) (bool, error) {
	inCmd := strings.HasPrefix(r.rel, "cmd/") || r.rel == "main.go"

	post := func(c *astutil.Cursor) bool {
		switch n := c.Node().(type) {

		case *ast.RangeStmt:
			switch {
			case r.isMap(n.X):
				c.Replace(r.rewriteMapRange(n))
			case r.isChan(n.X):
				c.Replace(r.rewriteChanRange(n))
			}

		case *ast.ChanType:
			// chan T, <-chan T, chan<- T  ->  *vsched.Chan[T]
			r.needVsched, r.changed = true, true
			r.st.ChanTypes++
			c.Replace(&ast.StarExpr{X: &ast.IndexExpr{X: sel("vsched", "Chan"), Index: n.Value}})

		case *ast.SendStmt:
			r.needVsched, r.changed = true, true
			r.st.Sends++
			c.Replace(&ast.ExprStmt{X: call(&ast.SelectorExpr{X: n.Chan, Sel: ast.NewIdent("Send")}, n.Value)})

		case *ast.GoStmt:
			r.needVsched, r.changed = true, true
			r.st.Gos++
			c.Replace(r.rewriteGo(n))

		case *ast.SelectStmt:
			r.needVsched, r.changed = true, true
			r.st.Selects++
			c.Replace(r.rewriteSelect(n))

		case *ast.AssignStmt:
			// v, ok := <-ch
			if len(n.Lhs) == 2 && len(n.Rhs) == 1 {
				if u, ok := n.Rhs[0].(*ast.UnaryExpr); ok && u.Op == token.ARROW && !r.commRecv[u] {
					r.needVsched, r.changed = true, true
					r.st.Recvs++
					n.Rhs[0] = call(&ast.SelectorExpr{X: u.X, Sel: ast.NewIdent("Recv2")})
				}
			}

		case *ast.UnaryExpr:
			if n.Op == token.ARROW {
				if r.commRecv[n] {
					return true // handled by the select rewrite
				}
				if p, ok := c.Parent().(*ast.AssignStmt); ok && len(p.Lhs) == 2 && len(p.Rhs) == 1 {
					return true // handled by the AssignStmt case
				}
				r.needVsched, r.changed = true, true
				r.st.Recvs++
				c.Replace(call(&ast.SelectorExpr{X: n.X, Sel: ast.NewIdent("Recv")}))
			}

		case *ast.CallExpr:
			switch {
			case r.isBuiltin(n.Fun, "close") && len(n.Args) == 1 && r.isChan(n.Args[0]):
				r.needVsched, r.changed = true, true
				r.st.Closes++
				c.Replace(call(&ast.SelectorExpr{X: n.Args[0], Sel: ast.NewIdent("Close")}))
			case r.isBuiltin(n.Fun, "make") && len(n.Args) >= 1:
				// after the ChanType rewrite the first arg is *vsched.Chan[T]
				if st, ok := n.Args[0].(*ast.StarExpr); ok {
					if ix, ok := st.X.(*ast.IndexExpr); ok {
						if s, ok := ix.X.(*ast.SelectorExpr); ok && s.Sel.Name == "Chan" {
							if id, ok := s.X.(*ast.Ident); ok && id.Name == "vsched" {
								r.st.Makes++
								var capArg ast.Expr = &ast.BasicLit{Kind: token.INT, Value: "0"}
								if len(n.Args) == 2 {
									capArg = n.Args[1]
								}
								c.Replace(call(&ast.IndexExpr{X: sel("vsched", "NewChan"), Index: ix.Index}, capArg))
							}
						}
					}
				}
			case r.isCtxErr(n):
				r.needVsched, r.changed = true, true
				c.Replace(call(sel("vsched", "CtxErr"), n.Fun.(*ast.SelectorExpr).X))
			case inCmd && r.isPkgSel(n.Fun, "os", "Exit"):
				r.needExit, r.changed = true, true
				r.st.Exits++
				n.Fun = sel("vexit", "Exit")
			}
		}
		return true
	}

	// pre-order: remember which receive expressions belong to select comm clauses
	r.commStmts = map[*ast.ExprStmt]bool{}
	r.commRecv = map[*ast.UnaryExpr]bool{}
	ast.Inspect(f, func(n ast.Node) bool {
		cc, ok := n.(*ast.CommClause)
		if !ok || cc.Comm == nil {
			return true
		}
		switch s := cc.Comm.(type) {
		case *ast.ExprStmt:
			r.commStmts[s] = true
			if u, ok := s.X.(*ast.UnaryExpr); ok {
				r.commRecv[u] = true
			}
		case *ast.AssignStmt:
			if len(s.Rhs) == 1 {
				if u, ok := s.Rhs[0].(*ast.UnaryExpr); ok {
					r.commRecv[u] = true
				}
			}
		}
		return true
	})

	astutil.Apply(f, nil, post)
	if r.err != nil {
		return false, r.err
	}

	// import "sync" -> vsync (same local name)
	for _, imp := range f.Imports {
		if imp.Path.Value == `"sync"` {
			imp.Path.Value = strconv.Quote(rtImport + "vsync")
			imp.Name = ast.NewIdent("sync")
			r.changed = true
			r.st.SyncImports++
		}
	}
	if r.needVmap {
		astutil.AddImport(r.fset, f, rtImport+"vmap")
	}
	if r.needVsched {
		astutil.AddImport(r.fset, f, rtImport+"vsched")
	}
	if r.needExit {
		astutil.AddImport(r.fset, f, rtImport+"vexit")
		if !astutil.UsesImport(f, "os") {
			astutil.DeleteImport(r.fset, f, "os")
		}
	}
	return r.changed, nil
}

// for k, v := range m { body }  ->
// for _, e := range vmap.Iter(m, site) { k := e.K; v, ok := e.Get(); if !ok { continue }; body }
func (r *rewriter) rewriteMapRange(n *ast.RangeStmt) ast.Stmt {
	r.needVmap, r.changed = true, true
	r.st.MapRanges++
	site := r.site(n.Pos())
	r.st.Sites = append(r.st.Sites, site)
	e := ast.NewIdent(r.fresh("e"))
	var pre []ast.Stmt
	tok := n.Tok
	if tok == token.ILLEGAL {
		tok = token.DEFINE
	}
	hasK, hasV := !isBlank(n.Key), !isBlank(n.Value)
	if hasK {
		pre = append(pre, &ast.AssignStmt{Lhs: []ast.Expr{n.Key}, Tok: tok, Rhs: []ast.Expr{&ast.SelectorExpr{X: e, Sel: ast.NewIdent("K")}}})
	}
	ok := ast.NewIdent(r.fresh("ok"))
	if hasV {
		tmp := ast.NewIdent(r.fresh("v"))
		pre = append(pre,
			&ast.AssignStmt{Lhs: []ast.Expr{tmp, ok}, Tok: token.DEFINE, Rhs: []ast.Expr{call(&ast.SelectorExpr{X: e, Sel: ast.NewIdent("Get")})}},
			&ast.IfStmt{Cond: &ast.UnaryExpr{Op: token.NOT, X: ok}, Body: &ast.BlockStmt{List: []ast.Stmt{&ast.BranchStmt{Tok: token.CONTINUE}}}},
			&ast.AssignStmt{Lhs: []ast.Expr{n.Value}, Tok: tok, Rhs: []ast.Expr{tmp}},
		)
	} else {
		pre = append(pre,
			&ast.IfStmt{Cond: &ast.UnaryExpr{Op: token.NOT, X: call(&ast.SelectorExpr{X: e, Sel: ast.NewIdent("Has")})}, Body: &ast.BlockStmt{List: []ast.Stmt{&ast.BranchStmt{Tok: token.CONTINUE}}}},
		)
	}
	body := &ast.BlockStmt{List: append(pre, n.Body.List...)}
	return &ast.RangeStmt{
		Key: ast.NewIdent("_"), Value: e, Tok: token.DEFINE,
		X:    call(sel("vmap", "Iter"), n.X, strLit(site)),
		Body: body,
	}
}

// for v := range ch { body } -> for v, ok := ch.Recv2(); ok; v, ok = ch.Recv2() { body }
func (r *rewriter) rewriteChanRange(n *ast.RangeStmt) ast.Stmt {
	r.needVsched, r.changed = true, true
	r.st.RangeChans++
	if !simpleExpr(n.X) {
		r.fail(n.Pos(), "range over non-trivial channel expression")
	}
	ok := ast.NewIdent(r.fresh("ok"))
	var v ast.Expr = ast.NewIdent("_")
	if !isBlank(n.Key) {
		v = n.Key
	}
	if n.Tok == token.ASSIGN {
		r.fail(n.Pos(), "range over channel with = not supported")
	}
	recv := func() ast.Expr { return call(&ast.SelectorExpr{X: n.X, Sel: ast.NewIdent("Recv2")}) }
	var init, post ast.Stmt
	if isBlank(v) {
		tmp := ast.NewIdent(r.fresh("t"))
		init = &ast.AssignStmt{Lhs: []ast.Expr{tmp, ok}, Tok: token.DEFINE, Rhs: []ast.Expr{recv()}}
		post = &ast.AssignStmt{Lhs: []ast.Expr{tmp, ok}, Tok: token.ASSIGN, Rhs: []ast.Expr{recv()}}
		n.Body.List = append([]ast.Stmt{&ast.AssignStmt{Lhs: []ast.Expr{ast.NewIdent("_")}, Tok: token.ASSIGN, Rhs: []ast.Expr{tmp}}}, n.Body.List...)
	} else {
		init = &ast.AssignStmt{Lhs: []ast.Expr{v, ok}, Tok: token.DEFINE, Rhs: []ast.Expr{recv()}}
		post = &ast.AssignStmt{Lhs: []ast.Expr{v, ok}, Tok: token.ASSIGN, Rhs: []ast.Expr{recv()}}
	}
	return &ast.ForStmt{Init: init, Cond: ok, Post: post, Body: n.Body}
}

// go f(a, b) -> { fn := f; a0 := a; a1 := b; vsched.Go(func() { fn(a0, a1) }) }
func (r *rewriter) rewriteGo(n *ast.GoStmt) ast.Stmt {
	var stmts []ast.Stmt
	fn := ast.NewIdent(r.fresh("fn"))
	stmts = append(stmts, &ast.AssignStmt{Lhs: []ast.Expr{fn}, Tok: token.DEFINE, Rhs: []ast.Expr{n.Call.Fun}})
	var args []ast.Expr
	for _, a := range n.Call.Args {
		id := ast.NewIdent(r.fresh("a"))
		stmts = append(stmts, &ast.AssignStmt{Lhs: []ast.Expr{id}, Tok: token.DEFINE, Rhs: []ast.Expr{a}})
		args = append(args, id)
	}
	c := call(fn, args...)
	c.Ellipsis = n.Call.Ellipsis
	stmts = append(stmts, &ast.ExprStmt{X: call(sel("vsched", "Go"),
		&ast.FuncLit{Type: &ast.FuncType{Params: &ast.FieldList{}}, Body: &ast.BlockStmt{List: []ast.Stmt{&ast.ExprStmt{X: c}}}})})
	return &ast.BlockStmt{List: stmts}
}

// select { case d, ok := <-ch: A; case <-ctx.Done(): B; case ch <- v: C; default: D } ->
// switch s := vsched.Select(vsched.RecvCase(ch), vsched.DoneCase(ctx), vsched.SendCase(ch, v), vsched.DefaultCase()); s.Index {
// case 0: d, ok := ch.TakeRecv(s); A ... }
func (r *rewriter) rewriteSelect(n *ast.SelectStmt) ast.Stmt {
	s := ast.NewIdent(r.fresh("sel"))
	var cases []ast.Expr
	var clauses []ast.Stmt
	for i, st := range n.Body.List {
		cc := st.(*ast.CommClause)
		var pre []ast.Stmt
		idx := &ast.BasicLit{Kind: token.INT, Value: strconv.Itoa(i)}
		switch comm := cc.Comm.(type) {
		case nil:
			cases = append(cases, call(sel("vsched", "DefaultCase")))
		case *ast.ExprStmt:
			// after the post-order pass a SendStmt child has already become ch.Send(v)
			if c, ok := comm.X.(*ast.CallExpr); ok {
				if se, ok := c.Fun.(*ast.SelectorExpr); ok && se.Sel.Name == "Send" && len(c.Args) == 1 {
					cases = append(cases, call(sel("vsched", "SendCase"), se.X, c.Args[0]))
					break
				}
			}
			if ctx, ok := r.isCtxDone(comm.X); ok {
				cases = append(cases, call(sel("vsched", "DoneCase"), ctx))
				break
			}
			u, ok := comm.X.(*ast.UnaryExpr)
			if !ok || u.Op != token.ARROW || !simpleExpr(u.X) {
				r.fail(cc.Pos(), "unsupported select case")
				return n
			}
			cases = append(cases, call(sel("vsched", "RecvCase"), u.X))
			pre = append(pre, &ast.ExprStmt{X: call(&ast.SelectorExpr{X: u.X, Sel: ast.NewIdent("TakeRecv")}, s)})
		case *ast.AssignStmt:
			u, ok := comm.Rhs[0].(*ast.UnaryExpr)
			if !ok || u.Op != token.ARROW || !simpleExpr(u.X) {
				r.fail(cc.Pos(), "unsupported select case")
				return n
			}
			cases = append(cases, call(sel("vsched", "RecvCase"), u.X))
			take := call(&ast.SelectorExpr{X: u.X, Sel: ast.NewIdent("TakeRecv")}, s)
			lhs := comm.Lhs
			if len(lhs) == 1 {
				lhs = []ast.Expr{lhs[0], ast.NewIdent("_")}
			}
			pre = append(pre, &ast.AssignStmt{Lhs: lhs, Tok: comm.Tok, Rhs: []ast.Expr{take}})
			// silence "declared and not used" for the common `case d, ok := <-ch` shapes
		default:
			r.fail(cc.Pos(), "unsupported select comm %T", comm)
			return n
		}
		clauses = append(clauses, &ast.CaseClause{List: []ast.Expr{idx}, Body: append(pre, cc.Body...)})
	}
	clauses = append(clauses, &ast.CaseClause{Body: []ast.Stmt{&ast.ExprStmt{X: call(ast.NewIdent("panic"), strLit("vsched: bad select index"))}}})
	return &ast.SwitchStmt{
		Init: &ast.AssignStmt{Lhs: []ast.Expr{s}, Tok: token.DEFINE, Rhs: []ast.Expr{call(sel("vsched", "Select"), cases...)}},
		Tag:  &ast.SelectorExpr{X: s, Sel: ast.NewIdent("Index")},
		Body: &ast.BlockStmt{List: clauses},
	}
}
