#!/usr/bin/env python3
"""Generates /verif/MANIFEST.json from the table below (kept in one place so that
it stays valid while checks are added)."""
import json

CHECKS = {}   # id -> dict(level, text, note, technique, design_ref)
NA = {}       # id -> reason

def add(id, category, text, note, technique, ref):
    CHECKS[id] = dict(category=category, text=text, note=note, technique=technique, ref=ref)

exec(open('/verif/manifest_table.py').read())

props = [json.loads(l)["id"] for l in open('/verif/properties.jsonl')]
m = {
 "version": 1,
 "setup_cmd": "/verif/setup.sh",
 "hooks": {
  "guard": "verif",
  "enable": "no hook is committed to /repo: instrumentation is generated at check time from /repo's working tree by /verif/govirt and injected with `go build -tags verif -overlay /verif/.cache/overlay/overlay.json` (see DESIGN.md 3.2)",
  "baseline_off_cmd": "cd /repo && go test -mod=mod -json -vet=off -count=1 -timeout 25m ./...",
  "source_commits": [],
  "add_only": True
 },
 "engines": [
  {"name": "kmc", "path": "/verif/harness", "serves_properties": sorted(CHECKS), "kind_free_text": "stateless choice-sequence explorer (deviation-bounded DFS with prefix replay) + in-process command driver + reference models"},
  {"name": "govirt", "path": "/verif/govirt", "serves_properties": sorted(CHECKS), "kind_free_text": "source-to-source overlay generator: map ranges, channels/select/go, sync, os.Exit -> controller-owned runtime (vmap, vsched, vsync, vexit)"},
 ],
 "checks": [],
 "notes": "All checks: ./check <id> <tier>; exit 0 held / 1 VIOLATION / 2 engine error. Known findings: /verif/known_findings.json.",
 "not_applicable": [{"property_id": p, "reason": NA.get(p, "check not built yet in this session; see DESIGN.md section 4 for the planned procedure")} for p in props if p not in CHECKS],
}
for id in sorted(CHECKS):
    c = CHECKS[id]
    m["checks"].append({
        "property_id": id,
        "quick_cmd": f"./check {id} quick",
        "thorough_cmd": f"./check {id} thorough",
        "evidence_file": f"/verif/evidence/{id}.json",
        "replay_cmd_template": "./build.sh && .cache/bin/kmc replay {path}",
        "engine": "kmc",
        "level_claimed": {"category": c["category"], "text": c["text"], "design_ref": c["ref"]},
        "level_note": c["note"],
        "technique": c["technique"],
    })
json.dump(m, open('/verif/MANIFEST.json', 'w'), indent=1)
print("checks:", len(m["checks"]), "not_applicable:", len(m["not_applicable"]))
