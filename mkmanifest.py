#!/usr/bin/env python3
"""Generates /verif/MANIFEST.json from the table below (kept in one place so that
it stays valid while checks are added)."""
import json

CHECKS = {}   # id -> dict(level, text, note, technique, design_ref)
NA = {}       # id -> reason

def add(id, category, text, note, technique, ref):
    CHECKS[id] = dict(category=category, text=text, note=note, technique=technique, ref=ref)

exec(open('/verif/manifest_table.py').read())

# parts added after the seeded-change rounds (DESIGN.md 10.9); appended to the level text
EXTRA = {
 "C01": "In addition the valued accrual pipeline scenarios run free under the Go race detector (the explorer treats a processor callback as atomic), and the Delta row of a two-year daily accrual is observed on the free-running binary.",
 "C02": "In addition: the same cells around the end of a leap year, and a three-file layout of a fixed journal under every loader schedule within the deviation bound (single-file result as the oracle).",
 "C03": "In addition every life history of <= 4 (quick) / 6 (thorough) steps of two foreign positions (buy, sell out completely, new price, unrelated booking) on consecutive days.",
 "C04": "In addition an accepted and a rejected journal spread over three files under every loader schedule within the deviation bound.",
 "C05": "In addition one wide two-level layout (81 files) per journal.",
 "C06": "Inputs include sibling accounts / commodities whose totals are equal but made of decimals that are inexact in binary, arriving in different orders.",
 "C12": "In addition `balance -v` on prices in the root file and positions in two included files under every loader schedule within the deviation bound.",
 "C14": "In addition wide include trees (21/81/141 files, valid or with an error in the last leaf) and an 'extreme' class of numeric flag values (INT32 limits, 1e8) run on the real binary under a 4 GiB address-space limit and a 20 s deadline.",
 "C15": "In addition a crossed-ties case (mathematically equal scores attached to different words) explored under all 7! iteration orders of the token set.",
 "C16": "In addition the position life histories of C03.",
 "C20": "In addition the position life histories of C03 (portfolios that become empty and are funded again), --last and --commodity configurations.",
}
for k, v in EXTRA.items():
    CHECKS[k]["text"] += " " + v

props = [json.loads(l)["id"] for l in open('/verif/properties.jsonl')]
m = {
 "version": 1,
 "setup_cmd": "/verif/setup.sh",
 "hooks": {
  "guard": "verif",
  "enable": "no hook is committed to /repo: instrumentation is generated at check time from /repo's working tree by /verif/govirt and injected with `go build -tags verif -overlay /verif/.cache/overlay/overlay.json` (see DESIGN.md 3.2)",
  "baseline_off_cmd": "cd /repo && go test -mod=mod -json -vet=off -count=1 -timeout 25m ./...",
  "source_commits": [],
  "add_only": True
 },
 "engines": [
  {"name": "kmc", "path": "/verif/harness", "serves_properties": sorted(CHECKS), "kind_free_text": "stateless choice-sequence explorer (deviation-bounded DFS with prefix replay) + in-process command driver + reference models"},
  {"name": "govirt", "path": "/verif/govirt", "serves_properties": sorted(CHECKS), "kind_free_text": "source-to-source overlay generator: map ranges, channels/select/go, sync, os.Exit -> controller-owned runtime (vmap, vsched, vsync, vexit)"},
 ],
 "checks": [],
 "notes": "All checks: ./check <id> <tier>; exit 0 held / 1 VIOLATION / 2 engine error. Known findings: /verif/known_findings.json.",
 "not_applicable": [{"property_id": p, "reason": NA.get(p, "check not built yet in this session; see DESIGN.md section 4 for the planned procedure")} for p in props if p not in CHECKS],
}
for id in sorted(CHECKS):
    c = CHECKS[id]
    m["checks"].append({
        "property_id": id,
        "quick_cmd": f"./check {id} quick",
        "thorough_cmd": f"./check {id} thorough",
        "evidence_file": f"/verif/evidence/{id}.json",
        "replay_cmd_template": "./build.sh && .cache/bin/kmc replay {path}",
        "engine": "kmc",
        "level_claimed": {"category": c["category"], "text": c["text"], "design_ref": c["ref"]},
        "level_note": c["note"],
        "technique": c["technique"],
    })
json.dump(m, open('/verif/MANIFEST.json', 'w'), indent=1)
print("checks:", len(m["checks"]), "not_applicable:", len(m["not_applicable"]))
