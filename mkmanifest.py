#!/usr/bin/env python3
"""Generates /verif/MANIFEST.json from the table below (kept in one place so that
it stays valid while checks are added)."""
import json

CHECKS = {}   # id -> dict(level, text, note, technique, design_ref)
NA = {}       # id -> reason

def add(id, category, text, note, technique, ref):
    CHECKS[id] = dict(category=category, text=text, note=note, technique=technique, ref=ref)

exec(open('/verif/manifest_table.py').read())

# parts added after the seeded-change rounds (DESIGN.md 10.9); appended to the level text
EXTRA = {
 "C01": "In addition the valued accrual pipeline scenarios run free under the Go race detector (the explorer treats a processor callback as atomic), the Delta row of a two-year daily accrual is observed on the free-running binary, and the position life histories of C03 (totals that pass through exactly zero).",
 "C02": "In addition: the same cells around the end of a leap year and for journals that begin on 0001-01-01, mapping rules with an alternation, and a three-file layout of a fixed journal under every loader schedule within the deviation bound (single-file result as the oracle).",
 "C03": "In addition every life history of <= 4 (quick) / 6 (thorough) steps of two foreign positions (buy, sell out completely, new price, unrelated booking, transfer) on consecutive days, mapping configurations, a three-file layout (the same pair quoted on one day in two files) under every loader schedule within the deviation bound, and suffix mapping rules on asset accounts against the unmapped income rows.",
 "C04": "In addition an accepted and a rejected journal spread over three files under every loader schedule within the deviation bound; the alphabets contain dates in 1600, 2300 and 9999, fractional and zero-share accruals, and bookings that name the account on the credit side; `check --write` gives the same verdicts.",
 "C05": "In addition one wide two-level layout (81 files) per journal, hand-picked journals of 5-6 directives in all their orders (one with a deep account and its booked ancestor under `-m 1:1`), and a many-file class on the free-running binary.",
 "C06": "Inputs include sibling accounts / commodities whose totals are equal but made of decimals that are inexact in binary, arriving in different orders; weights at 15-16 digits; a diamond of includes; and, on the real binary only (GOMAXPROCS all/1/2/4, repeated), a 40-account training tie and a 40000-transaction include.",
 "C07": "In addition tokens with NUL / invalid UTF-8, long files, include trees through the loader, and the rendered line:column of every error compared with the range.",
 "C09": "In addition inverse quotes on the same day, suffix mapping rules, same-day twins whose amounts have coefficients around 2^63 and 2^64; the pipeline scenarios of that report run free under the race detector.",
 "C10": "In addition century-long windows and, at command level, accruals whose instalments lie around every 512th directive (1300 filler transactions; a daily accrual over two years).",
 "C11": "In addition year-end and century windows and a command-level part (15 daily bookings of 2^i, a sparse variant, a journal ending with non-transaction directives, time zones east and west of UTC).",
 "C12": "In addition `balance -v` on prices in the root file and positions in two included files under every loader schedule within the deviation bound; boundary prices (redeclared pairs, reciprocals that truncate, quotes with nine decimals and below 1e-8); a 9000-day price history in one file on the free-running binary.",
 "C13": "In addition statements split over several files and descriptions containing `#`, 200-character texts of two-byte characters at both byte parities.",
 "C14": "In addition wide include trees (21/81/141 files, valid or with an error in the last leaf), an 'extreme' class of numeric flag values (INT32 / INT64 limits, 1e8), deep accounts, include doubling and device files run on the real binary under a 4 GiB address-space limit and a 20 s deadline, and a 'stress' class (200-day growing journal, 8 x 300 accruals) under a 60 s deadline.",
 "C15": "In addition a crossed-ties case (mathematically equal scores attached to different words) explored under all 7! iteration orders of the token set, a training file included from two files under every loader schedule within the bound, --inplace on a widened target, and a 700-transaction target under the race detector.",
 "C16": "In addition the position life histories of C03, an accrual in a foreign commodity, a 36000-booking file on the real binary, and a diamond of includes under every loader schedule within the bound.",
 "C17": "In addition coefficients of 63-65 bits, CSV output under every display flag, 700-row tables (widths; race detector), commodity names in non-Latin scripts.",
 "C18": "In addition six files of which the first is broken, and unreadable paths (symlink loops, a path below a regular file) in front of good files under GOMAXPROCS 1, 2, 3 and 16.",
 "C19": "Scenarios include diamonds and cycles of includes (between ancestors and between siblings), accruals in two files, and filtered returns (race detector only).",
 "C20": "In addition the position life histories of C03 (portfolios that become empty and are funded again), --last and --commodity configurations, withdrawals written with a negative amount; two --account / --commodity expressions against their alternation on the free-running binary, and the filtered returns scenarios under the race detector.",
}
for k, v in EXTRA.items():
    CHECKS[k]["text"] += " " + v

props = [json.loads(l)["id"] for l in open('/verif/properties.jsonl')]
m = {
 "version": 1,
 "setup_cmd": "/verif/setup.sh",
 "hooks": {
  "guard": "verif",
  "enable": "no hook is committed to /repo: instrumentation is generated at check time from /repo's working tree by /verif/govirt and injected with `go build -tags verif -overlay /verif/.cache/overlay/overlay.json` (see DESIGN.md 3.2)",
  "baseline_off_cmd": "cd /repo && go test -mod=mod -json -vet=off -count=1 -timeout 25m ./...",
  "source_commits": [],
  "add_only": True
 },
 "engines": [
  {"name": "kmc", "path": "/verif/harness", "serves_properties": sorted(CHECKS), "kind_free_text": "stateless choice-sequence explorer (deviation-bounded DFS with prefix replay) + in-process command driver + reference models"},
  {"name": "govirt", "path": "/verif/govirt", "serves_properties": sorted(CHECKS), "kind_free_text": "source-to-source overlay generator: map ranges, channels/select/go, sync, os.Exit -> controller-owned runtime (vmap, vsched, vsync, vexit)"},
 ],
 "checks": [],
 "notes": "All checks: ./check <id> <tier>; exit 0 held / 1 VIOLATION / 2 engine error. Known findings: /verif/known_findings.json.",
 "not_applicable": [{"property_id": p, "reason": NA.get(p, "check not built yet in this session; see DESIGN.md section 4 for the planned procedure")} for p in props if p not in CHECKS],
}
for id in sorted(CHECKS):
    c = CHECKS[id]
    m["checks"].append({
        "property_id": id,
        "quick_cmd": f"./check {id} quick",
        "thorough_cmd": f"./check {id} thorough",
        "evidence_file": f"/verif/evidence/{id}.json",
        "replay_cmd_template": "./build.sh && .cache/bin/kmc replay {path}",
        "engine": "kmc",
        "level_claimed": {"category": c["category"], "text": c["text"], "design_ref": c["ref"]},
        "level_note": c["note"],
        "technique": c["technique"],
    })
json.dump(m, open('/verif/MANIFEST.json', 'w'), indent=1)
print("checks:", len(m["checks"]), "not_applicable:", len(m["not_applicable"]))
