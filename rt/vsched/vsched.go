// Package vsched is a deterministic cooperative runtime for the goroutines, channels
// and selects of the knut module (substituted by govirt). Exactly one goroutine runs
// at a time; at every synchronisation operation the running goroutine publishes its
// pending operation and a Controller (the model checker) picks which enabled
// goroutine performs its operation next.
//
// Without an active scheduler (native mode) every primitive degrades to the real Go
// primitive, so the same rewritten sources also run free (used for the `-race` tier).
package vsched

import (
	"context"
	"fmt"
	"reflect"
	"runtime/debug"
	"strings"
)

// Kind of a controller decision.
type Kind int

const (
	KSched   Kind = iota // which goroutine performs its pending operation next
	KSelect              // which ready case of a select
	KPartner             // which parked partner of an unbuffered rendezvous
)

func (k Kind) String() string { return [...]string{"sched", "select", "partner"}[k] }

// Controller owns every scheduling decision.
type Controller interface {
	// Choose returns an index in [0,n). For KSched, preempt reports whether the
	// goroutine that was running is still enabled and is alternative 0 (so that any
	// other pick is a preemption).
	Choose(kind Kind, n int, preempt bool, label func() string) int
	// Visit is called with the happens-before signature of the global state before
	// every scheduling decision with more than one alternative; returning false
	// prunes the execution (the state was already explored with at least the
	// remaining budget).
	Visit(sig uint64) bool
}

type opKind int

const (
	opNone opKind = iota // nothing pending: runnable (start, yield, completed rendezvous)
	opSend
	opRecv
	opSelect
	opLock
	opRLock
	opWGWait
	opOnce
	opAcquire // generic predicate wait (used by shims)
)

var opNames = [...]string{"run", "send", "recv", "select", "lock", "rlock", "wgwait", "once", "wait"}

type caseKind int

const (
	caseRecv caseKind = iota
	caseSend
	caseDone
	caseDefault
)

// Case is one arm of a Select.
type Case struct {
	kind caseKind
	ch   *core
	val  any
	ctx  context.Context
}

type op struct {
	kind  opKind
	ch    *core
	val   any
	cases []Case
	pred  func() bool // opLock/opRLock/opWGWait/opOnce/opAcquire: enabled iff pred()
	act   func()      // state change when the op is performed
	what  string
	obj   *uint64 // history hash of the synchronisation object (acquire semantics)

	// results
	completed bool // performed by a partner (rendezvous)
	recvVal   any
	recvOK    bool
	selIndex  int
	panicMsg  string
}

// G is a managed goroutine.
type G struct {
	id      int
	name    string
	wake    chan struct{}
	pending *op
	done    bool
	started bool
	nops    int
	h       uint64 // hash of this goroutine's causal history (happens-before signature)
	spawns  uint64
	nobj    uint64
}

// core is the untyped state of a channel.
type core struct {
	id     int
	cap    int
	buf    []any
	bufH   []uint64
	closed bool
	hid    uint64 // schedule-independent identity
	closeH uint64
}

// Result of one controlled execution.
type Result struct {
	Deadlock   bool
	Horizon    bool
	Pruned     bool // aborted by the controller: state already explored
	Crash      string // non-empty: a goroutine other than main panicked (process death in real Go)
	MainPanic  any    // main function panicked (re-raised value), nil otherwise
	Steps      int
	Goroutines int
	MaxLive    int
	Leaked     int      // goroutines still alive when main returned
	Blocked    []string // pending operations at deadlock
	Trace      []string // operation log (only when TraceOps)
}

type sched struct {
	ctl      Controller
	gs       []*G
	cur      *G
	steps    int
	horizon  int
	nextChan int
	abort    bool
	res      Result
	ack      chan struct{}
	traceOps bool
	live     int
	ctxIDs   map[context.Context]uint64
}

type killed struct{}

var active *sched

// Active reports whether a controlled execution is in progress.
func Active() bool { return active != nil }

// Options for Run.
type Options struct {
	Horizon  int
	TraceOps bool
}

// Run executes f as goroutine 0 under the controller and returns when f has
// returned (or the execution was aborted because of deadlock, horizon or a crash).
// All other goroutines are then unwound one at a time.
func Run(ctl Controller, opt Options, f func()) (res Result) {
	if active != nil {
		panic("vsched: nested Run")
	}
	if opt.Horizon == 0 {
		opt.Horizon = 20000
	}
	s := &sched{ctl: ctl, horizon: opt.Horizon, ack: make(chan struct{}), traceOps: opt.TraceOps, ctxIDs: map[context.Context]uint64{}}
	g0 := &G{id: 0, name: "main", wake: make(chan struct{}, 1), started: true, h: 0x9e3779b97f4a7c15}
	s.gs = []*G{g0}
	s.cur = g0
	s.live = 1
	s.res.MaxLive = 1
	active = s
	defer func() {
		r := recover()
		if _, ok := r.(killed); ok {
			r = nil
		}
		g0.done = true
		s.abort = true
		// unwind everybody else, one goroutine at a time
		for _, g := range s.gs[1:] {
			if g.done {
				continue
			}
			if !s.res.Deadlock && !s.res.Horizon && !s.res.Pruned && s.res.Crash == "" {
				s.res.Leaked++
			}
			g.wake <- struct{}{}
			<-s.ack
		}
		s.res.Steps = s.steps
		s.res.Goroutines = len(s.gs)
		active = nil
		res = s.res
		res.MainPanic = r
	}()
	f()
	return
}

func (s *sched) log(format string, a ...any) {
	if s.traceOps {
		s.res.Trace = append(s.res.Trace, fmt.Sprintf(format, a...))
	}
}

// Go starts f as a managed goroutine (spawn is a scheduling point of the parent).
func Go(f func()) {
	s := active
	if s == nil {
		go f()
		return
	}
	if s.abort {
		return
	}
	g := &G{id: len(s.gs), wake: make(chan struct{}, 1), pending: &op{kind: opNone, what: "start"}}
	g.h = mix(s.cur.h, tagSpawn, s.cur.spawns)
	s.cur.spawns++
	s.cur.h = mix(s.cur.h, tagSpawned, 0)
	s.gs = append(s.gs, g)
	s.live++
	if s.live > s.res.MaxLive {
		s.res.MaxLive = s.live
	}
	parent := s.cur
	s.log("g%d spawn g%d", parent.id, g.id)
	go func() {
		<-g.wake
		defer func() {
			r := recover()
			g.done = true
			s.live--
			if s.abort {
				s.ack <- struct{}{}
				return
			}
			if r != nil {
				if _, ok := r.(killed); !ok {
					s.res.Crash = fmt.Sprintf("goroutine g%d panicked: %v\n%s", g.id, r, trimStack(debug.Stack()))
					s.abortAll()
					return
				}
			}
			s.log("g%d exit", g.id)
			s.dispatch(nil)
		}()
		if s.abort {
			return
		}
		g.started = true
		f()
	}()
	s.point(&op{kind: opNone, what: "spawn"})
}

func trimStack(b []byte) string {
	lines := strings.Split(string(b), "\n")
	var keep []string
	for _, l := range lines {
		if strings.Contains(l, "knut/") && !strings.Contains(l, "verifrt") {
			keep = append(keep, strings.TrimSpace(l))
		}
		if len(keep) >= 8 {
			break
		}
	}
	return strings.Join(keep, "\n")
}

// abortAll ends the execution from a non-main goroutine: main is woken in abort mode
// and unwinds; Run then unwinds the rest.
func (s *sched) abortAll() {
	s.abort = true
	g0 := s.gs[0]
	if !g0.done {
		g0.wake <- struct{}{}
	}
}

// Yield is a scheduling point without an operation.
func Yield() {
	if s := active; s != nil {
		s.point(&op{kind: opNone, what: "yield"})
	}
}

// point publishes the pending op of the running goroutine and hands control to the
// controller-chosen goroutine; it returns when this goroutine's op has been performed.
func (s *sched) point(o *op) {
	if s.abort {
		panic(killed{})
	}
	g := s.cur
	g.pending = o
	g.nops++
	s.dispatch(g)
	if o.panicMsg != "" {
		panic(o.panicMsg)
	}
}

func (s *sched) enabled(g *G) bool {
	o := g.pending
	if o == nil || g.done {
		return false
	}
	if o.completed {
		return true
	}
	switch o.kind {
	case opNone:
		return true
	case opSend:
		return s.sendReady(o.ch, g)
	case opRecv:
		return s.recvReady(o.ch, g)
	case opSelect:
		for i := range o.cases {
			if s.caseReady(&o.cases[i], g) {
				return true
			}
		}
		return false
	default:
		return o.pred()
	}
}

func (s *sched) caseReady(c *Case, g *G) bool {
	switch c.kind {
	case caseRecv:
		return s.recvReady(c.ch, g)
	case caseSend:
		return s.sendReady(c.ch, g)
	case caseDone:
		return c.ctx.Err() != nil
	case caseDefault:
		return true
	}
	return false
}

func (s *sched) sendReady(c *core, self *G) bool {
	if c == nil {
		return false
	}
	if c.closed || len(c.buf) < c.cap {
		return true
	}
	return c.cap == 0 && len(s.partners(c, self, true)) > 0
}

func (s *sched) recvReady(c *core, self *G) bool {
	if c == nil {
		return false
	}
	if len(c.buf) > 0 || c.closed {
		return true
	}
	return c.cap == 0 && len(s.partners(c, self, false)) > 0
}

// partners returns the goroutines parked on the complementary operation of an
// unbuffered channel (wantRecv: receivers for a sender).
func (s *sched) partners(c *core, self *G, wantRecv bool) []*G {
	var res []*G
	for _, g := range s.gs {
		if g == self || g.done || g.pending == nil || g.pending.completed {
			continue
		}
		o := g.pending
		switch o.kind {
		case opRecv:
			if wantRecv && o.ch == c {
				res = append(res, g)
			}
		case opSend:
			if !wantRecv && o.ch == c {
				res = append(res, g)
			}
		case opSelect:
			for i := range o.cases {
				cs := &o.cases[i]
				if cs.ch == c && ((wantRecv && cs.kind == caseRecv) || (!wantRecv && cs.kind == caseSend)) {
					res = append(res, g)
					break
				}
			}
		}
	}
	return res
}

// dispatch picks the next goroutine, performs its op and transfers control.
// from is the goroutine that just arrived at a point (nil when it exited).
func (s *sched) dispatch(from *G) {
	s.steps++
	if s.steps > s.horizon {
		s.res.Horizon = true
		s.bail(from)
		return
	}
	var en []*G
	preempt := false
	if from != nil && s.enabled(from) {
		en = append(en, from)
		preempt = true
	}
	for _, g := range s.gs {
		if g != from && s.enabled(g) {
			en = append(en, g)
		}
	}
	if len(en) == 0 {
		s.res.Deadlock = true
		for _, g := range s.gs {
			if !g.done && g.pending != nil {
				s.res.Blocked = append(s.res.Blocked, fmt.Sprintf("g%d:%s", g.id, s.describe(g.pending)))
			}
		}
		s.bail(from)
		return
	}
	idx := 0
	if len(en) > 1 {
		if !s.ctl.Visit(s.signature(from)) {
			s.res.Pruned = true
			s.bail(from)
			return
		}
		idx = s.ctl.Choose(KSched, len(en), preempt, func() string {
			var b strings.Builder
			for i, g := range en {
				if i > 0 {
					b.WriteByte(' ')
				}
				fmt.Fprintf(&b, "g%d:%s", g.id, s.describe(g.pending))
			}
			return b.String()
		})
	}
	next := en[idx]
	s.perform(next)
	s.cur = next
	if next == from {
		return
	}
	next.wake <- struct{}{}
	if from != nil {
		<-from.wake
		if s.abort {
			panic(killed{})
		}
	}
}

// bail aborts the execution (deadlock/horizon) from whichever goroutine noticed.
func (s *sched) bail(from *G) {
	s.abort = true
	g0 := s.gs[0]
	if from == g0 {
		panic(killed{})
	}
	if !g0.done {
		g0.wake <- struct{}{}
	}
	if from != nil {
		// park until Run unwinds us
		<-from.wake
		panic(killed{})
	}
}

func (s *sched) describe(o *op) string {
	if o.completed {
		return "resume"
	}
	switch o.kind {
	case opNone:
		return o.what
	case opSend, opRecv:
		return fmt.Sprintf("%s(ch%d)", opNames[o.kind], o.ch.id)
	case opSelect:
		var parts []string
		for _, c := range o.cases {
			switch c.kind {
			case caseRecv:
				parts = append(parts, fmt.Sprintf("recv(ch%d)", c.ch.id))
			case caseSend:
				parts = append(parts, fmt.Sprintf("send(ch%d)", c.ch.id))
			case caseDone:
				parts = append(parts, "done")
			case caseDefault:
				parts = append(parts, "default")
			}
		}
		return "select{" + strings.Join(parts, ",") + "}"
	}
	return opNames[o.kind] + "(" + o.what + ")"
}

func (s *sched) pickPartner(c *core, self *G, wantRecv bool) *G {
	ps := s.partners(c, self, wantRecv)
	i := 0
	if len(ps) > 1 {
		i = s.ctl.Choose(KPartner, len(ps), false, func() string { return fmt.Sprintf("partners of g%d on ch%d", self.id, c.id) })
	}
	return ps[i]
}

// complete marks a parked partner's operation as performed.
func (s *sched) complete(p *G, c *core, isRecv bool, val any) {
	o := p.pending
	o.completed = true
	if isRecv {
		o.recvVal, o.recvOK = val, true
	}
	if o.kind == opSelect {
		for i := range o.cases {
			cs := &o.cases[i]
			if cs.ch == c && ((isRecv && cs.kind == caseRecv) || (!isRecv && cs.kind == caseSend)) {
				o.selIndex = i
				break
			}
		}
	}
}

func (s *sched) doSend(g *G, o *op, c *core, val any) {
	switch {
	case c.closed:
		o.panicMsg = "send on closed channel"
	case len(c.buf) < c.cap:
		c.buf = append(c.buf, val)
	default:
		p := s.pickPartner(c, g, true)
		s.complete(p, c, true, val)
		ev := mix(mix(g.h, tagRdv, c.hid), p.h, 0)
		g.h, p.h = mix(ev, 1, 0), mix(ev, 2, 0)
		s.log("g%d send ch%d -> g%d", g.id, c.id, p.id)
		return
	}
	g.h = mix(g.h, tagSend, c.hid)
	if !c.closed {
		c.bufH = append(c.bufH, g.h)
	}
	s.log("g%d send ch%d", g.id, c.id)
}

func (s *sched) doRecv(g *G, o *op, c *core) {
	switch {
	case len(c.buf) > 0:
		o.recvVal, o.recvOK = c.buf[0], true
		c.buf = c.buf[1:]
		g.h = mix(mix(g.h, tagRecv, c.hid), c.bufH[0], 0)
		c.bufH = c.bufH[1:]
	case c.cap == 0 && len(s.partners(c, g, false)) > 0:
		p := s.pickPartner(c, g, false)
		po := p.pending
		var v any
		if po.kind == opSend {
			v = po.val
		} else {
			for i := range po.cases {
				if po.cases[i].ch == c && po.cases[i].kind == caseSend {
					v = po.cases[i].val
					break
				}
			}
		}
		s.complete(p, c, false, nil)
		o.recvVal, o.recvOK = v, true
		ev := mix(mix(p.h, tagRdv, c.hid), g.h, 0)
		p.h, g.h = mix(ev, 1, 0), mix(ev, 2, 0)
		s.log("g%d recv ch%d <- g%d", g.id, c.id, p.id)
		return
	default: // closed and empty
		o.recvVal, o.recvOK = nil, false
		g.h = mix(mix(g.h, tagRecvClosed, c.hid), c.closeH, 0)
	}
	s.log("g%d recv ch%d ok=%v", g.id, c.id, o.recvOK)
}

// perform executes the pending operation of g (which must be enabled).
func (s *sched) perform(g *G) {
	o := g.pending
	g.pending = nil
	if o.completed {
		return
	}
	switch o.kind {
	case opNone:
	case opSend:
		s.doSend(g, o, o.ch, o.val)
	case opRecv:
		s.doRecv(g, o, o.ch)
	case opSelect:
		var ready []int
		def := -1
		for i := range o.cases {
			if o.cases[i].kind == caseDefault {
				def = i
				continue
			}
			if s.caseReady(&o.cases[i], g) {
				ready = append(ready, i)
			}
		}
		if len(ready) == 0 {
			o.selIndex = def
			g.h = mix(g.h, tagSel, uint64(def)+1000)
			s.log("g%d select default", g.id)
			return
		}
		k := 0
		if len(ready) > 1 {
			k = s.ctl.Choose(KSelect, len(ready), false, func() string { return fmt.Sprintf("g%d %s", g.id, s.describe(o)) })
		}
		i := ready[k]
		o.selIndex = i
		cs := &o.cases[i]
		g.h = mix(g.h, tagSel, uint64(i))
		switch cs.kind {
		case caseRecv:
			s.doRecv(g, o, cs.ch)
		case caseSend:
			s.doSend(g, o, cs.ch, cs.val)
		case caseDone:
			g.h = mix(g.h, tagDone, s.ctxIDs[cs.ctx])
			s.log("g%d select done", g.id)
		}
	default:
		if o.act != nil {
			o.act()
		}
		if o.obj != nil {
			g.h = mix(mix(g.h, tagAcq, uint64(o.kind)), *o.obj, 0)
		}
		s.log("g%d %s %s", g.id, opNames[o.kind], o.what)
	}
}

// ---------------------------------------------------------------------------------
// Channels

// Chan replaces `chan T`.
type Chan[T any] struct {
	c      *core
	native chan T
}

// NewChan replaces make(chan T, n).
func NewChan[T any](n int) *Chan[T] {
	s := active
	if s == nil {
		return &Chan[T]{native: make(chan T, n)}
	}
	s.nextChan++
	g := s.cur
	g.nobj++
	hid := mix(g.h, tagChan, g.nobj)
	return &Chan[T]{c: &core{id: s.nextChan, cap: n, hid: hid}}
}

func (c *Chan[T]) core() *core {
	if c == nil {
		return nil
	}
	return c.c
}

func unbox[T any](v any) T {
	if v == nil {
		var z T
		return z
	}
	return v.(T)
}

func (c *Chan[T]) Send(v T) {
	if c != nil && c.native != nil {
		c.native <- v
		return
	}
	s := mustActive()
	s.point(&op{kind: opSend, ch: c.core(), val: v})
}

func (c *Chan[T]) Recv() T {
	v, _ := c.Recv2()
	return v
}

func (c *Chan[T]) Recv2() (T, bool) {
	if c != nil && c.native != nil {
		v, ok := <-c.native
		return v, ok
	}
	s := mustActive()
	o := &op{kind: opRecv, ch: c.core()}
	s.point(o)
	return unbox[T](o.recvVal), o.recvOK
}

func (c *Chan[T]) Close() {
	if c.native != nil {
		close(c.native)
		return
	}
	s := mustActive()
	if s.abort {
		return
	}
	if c.c.closed {
		panic("close of closed channel")
	}
	c.c.closed = true
	s.cur.h = mix(s.cur.h, tagClose, c.c.hid)
	c.c.closeH = s.cur.h
	s.log("g%d close ch%d", s.cur.id, c.c.id)
}

func mustActive() *sched {
	s := active
	if s == nil {
		panic("vsched: managed channel used outside a controlled execution")
	}
	return s
}

// Sel is the outcome of a Select.
type Sel struct {
	Index int
	val   any
	ok    bool
}

func RecvCase[T any](c *Chan[T]) Case {
	if c != nil && c.native != nil {
		return Case{kind: caseRecv, val: c.native}
	}
	return Case{kind: caseRecv, ch: c.core()}
}

func SendCase[T any](c *Chan[T], v T) Case {
	if c != nil && c.native != nil {
		return Case{kind: caseSend, val: [2]any{c.native, v}}
	}
	return Case{kind: caseSend, ch: c.core(), val: v}
}

func DoneCase(ctx context.Context) Case { return Case{kind: caseDone, ctx: ctx} }

func DefaultCase() Case { return Case{kind: caseDefault} }

// TakeRecv returns the value received by the chosen receive case.
func (c *Chan[T]) TakeRecv(s Sel) (T, bool) {
	return unbox[T](s.val), s.ok
}

// Select replaces a select statement.
func Select(cases ...Case) Sel {
	s := active
	if s == nil {
		return nativeSelect(cases)
	}
	o := &op{kind: opSelect, cases: cases}
	s.point(o)
	return Sel{Index: o.selIndex, val: o.recvVal, ok: o.recvOK}
}

func nativeSelect(cases []Case) Sel {
	rc := make([]reflect.SelectCase, len(cases))
	for i, c := range cases {
		switch c.kind {
		case caseRecv:
			rc[i] = reflect.SelectCase{Dir: reflect.SelectRecv, Chan: reflect.ValueOf(c.val)}
		case caseSend:
			p := c.val.([2]any)
			ch := reflect.ValueOf(p[0])
			v := reflect.ValueOf(p[1])
			if !v.IsValid() {
				v = reflect.Zero(ch.Type().Elem())
			}
			rc[i] = reflect.SelectCase{Dir: reflect.SelectSend, Chan: ch, Send: v}
		case caseDone:
			rc[i] = reflect.SelectCase{Dir: reflect.SelectRecv, Chan: reflect.ValueOf(c.ctx.Done())}
		case caseDefault:
			rc[i] = reflect.SelectCase{Dir: reflect.SelectDefault}
		}
	}
	i, v, ok := reflect.Select(rc)
	res := Sel{Index: i, ok: ok}
	if cases[i].kind == caseRecv && v.IsValid() && ok {
		res.val = v.Interface()
	}
	return res
}

// ---------------------------------------------------------------------------------
// Generic blocking operation for vsync and the shims.

// Block is a scheduling point that is enabled iff pred() holds; act() is executed
// atomically with the decision to proceed. In native mode it must not be called.
func Block(kind string, what string, obj *uint64, pred func() bool, act func()) {
	s := mustActive()
	k := opAcquire
	switch kind {
	case "lock":
		k = opLock
	case "rlock":
		k = opRLock
	case "wgwait":
		k = opWGWait
	case "once":
		k = opOnce
	}
	s.point(&op{kind: k, pred: pred, act: act, what: what, obj: obj})
}

// Aborting reports whether the current execution is being unwound.
func Aborting() bool { return active != nil && active.abort }

// IsKilled reports whether a recovered panic value is the unwinding sentinel.
func IsKilled(r any) bool { _, ok := r.(killed); return ok }

// CurrentID returns the id of the running managed goroutine (-1 in native mode).
func CurrentID() int {
	if s := active; s != nil && s.cur != nil {
		return s.cur.id
	}
	return -1
}

// ---------------------------------------------------------------------------------
// Happens-before signatures (used by the controller to recognise states that were
// already explored through a different but equivalent interleaving).

const (
	tagSpawn uint64 = iota + 1
	tagSpawned
	tagChan
	tagSend
	tagRecv
	tagRecvClosed
	tagRdv
	tagClose
	tagSel
	tagDone
	tagAcq
	tagRel
	tagCtx
	tagCtxErr
	tagCancel
	tagFold
	tagWGDone
)

func mix(h, a, b uint64) uint64 {
	h ^= a * 0xff51afd7ed558ccd
	h = (h ^ (h >> 33)) * 0xc4ceb9fe1a85ec53
	h ^= b * 0x9e3779b97f4a7c15
	h = (h ^ (h >> 29)) * 0xbf58476d1ce4e5b9
	return h ^ (h >> 32)
}

func (s *sched) opHash(o *op) uint64 {
	if o == nil {
		return 1
	}
	if o.completed {
		return 2
	}
	h := uint64(o.kind) + 10
	switch o.kind {
	case opSend, opRecv:
		if o.ch != nil {
			h = mix(h, o.ch.hid, 0)
		}
	case opSelect:
		for _, c := range o.cases {
			var id uint64
			if c.ch != nil {
				id = c.ch.hid
			}
			if c.kind == caseDone {
				id = s.ctxIDs[c.ctx]
			}
			h = mix(h, uint64(c.kind)+1, id)
		}
	default:
		if o.obj != nil {
			h = mix(h, *o.obj, 0)
		}
	}
	return h
}

// signature combines every live goroutine's causal-history hash and pending
// operation (commutatively: goroutine identity is part of the history hash).
func (s *sched) signature(from *G) uint64 {
	var sig uint64
	for _, g := range s.gs {
		if g.done {
			sig += mix(g.h, 7, 7)
			continue
		}
		sig += mix(g.h, s.opHash(g.pending), 3)
	}
	if from != nil {
		sig = mix(sig, from.h, 5)
	}
	return sig
}

// Release publishes the running goroutine's history into a synchronisation object
// (Unlock, RUnlock): the next acquirer depends on it.
func Release(obj *uint64) {
	if s := active; s != nil && s.cur != nil {
		s.cur.h = mix(s.cur.h, tagRel, *obj)
		*obj = s.cur.h
	}
}

// ReleaseCommutative is Release for operations that are unordered among themselves
// (WaitGroup.Done): the object accumulates the histories by addition.
func ReleaseCommutative(obj *uint64) {
	if s := active; s != nil && s.cur != nil {
		s.cur.h = mix(s.cur.h, tagWGDone, 0)
		*obj += mix(s.cur.h, tagWGDone, 1)
	}
}

// Fold mixes an externally made choice (e.g. a map iteration order) into the
// running goroutine's history.
func Fold(a, b uint64) {
	if s := active; s != nil && s.cur != nil {
		s.cur.h = mix(s.cur.h, tagFold, mix(a, b, 0))
	}
}

// NewCtx registers a cancellable context created by the running goroutine.
func NewCtx(ctx context.Context) {
	if s := active; s != nil && s.cur != nil {
		g := s.cur
		g.nobj++
		s.ctxIDs[ctx] = mix(g.h, tagCtx, g.nobj)
	}
}

// Cancelling records that the running goroutine cancels ctx (call right before cancel()).
func Cancelling(ctx context.Context) {
	if s := active; s != nil && s.cur != nil {
		s.cur.h = mix(s.cur.h, tagCancel, s.ctxIDs[ctx])
	}
}

// CtxErr replaces ctx.Err() in the knut sources: the observed value becomes part of
// the reader's history.
func CtxErr(ctx context.Context) error {
	err := ctx.Err()
	if s := active; s != nil && s.cur != nil {
		var bit uint64
		if err != nil {
			bit = 1
		}
		s.cur.h = mix(mix(s.cur.h, tagCtxErr, s.ctxIDs[ctx]), bit, 0)
	}
	return err
}
