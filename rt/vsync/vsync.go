// Package vsync replaces package sync inside the knut module (import rewritten by
// govirt). Under an active vsched scheduler every blocking operation is a scheduling
// point; otherwise the real sync primitives are used.
package vsync

import (
	"sync"

	"github.com/sboehler/knut/lib/verifrt/vsched"
)

type Locker = sync.Locker

// Mutex ---------------------------------------------------------------------------

type Mutex struct {
	n      sync.Mutex
	locked bool
	h      uint64
}

func (m *Mutex) Lock() {
	if !vsched.Active() {
		m.n.Lock()
		return
	}
	vsched.Block("lock", "mutex", &m.h, func() bool { return !m.locked }, func() { m.locked = true })
}

func (m *Mutex) TryLock() bool {
	if !vsched.Active() {
		return m.n.TryLock()
	}
	vsched.Yield()
	if m.locked {
		return false
	}
	m.locked = true
	return true
}

func (m *Mutex) Unlock() {
	if !vsched.Active() {
		m.n.Unlock()
		return
	}
	if vsched.Aborting() {
		m.locked = false
		return
	}
	if !m.locked {
		panic("sync: unlock of unlocked mutex")
	}
	m.locked = false
	vsched.Release(&m.h)
}

// RWMutex -------------------------------------------------------------------------

type RWMutex struct {
	n       sync.RWMutex
	writer  bool
	readers int
	// wpending: a writer has announced itself (from the first step of Lock until
	// Unlock). As in the real sync.RWMutex a pending writer blocks new readers, so a
	// goroutine that read-locks recursively can deadlock with a writer.
	wpending bool
	// happens-before hashes: hW = last writer release, hR = commutative sum of reader
	// releases, hAll = both (what the next writer depends on). Read sections commute.
	hW, hR, hAll uint64
}

func (m *RWMutex) Lock() {
	if !vsched.Active() {
		m.n.Lock()
		return
	}
	// step 1: serialise with other writers and announce; step 2: wait for the readers to drain
	vsched.Block("lock-announce", "rwmutex", &m.hW, func() bool { return !m.wpending }, func() { m.wpending = true })
	vsched.Block("lock", "rwmutex", &m.hAll, func() bool { return m.readers == 0 }, func() { m.writer = true })
}

func (m *RWMutex) Unlock() {
	if !vsched.Active() {
		m.n.Unlock()
		return
	}
	if vsched.Aborting() {
		m.writer, m.wpending = false, false
		return
	}
	if !m.writer {
		panic("sync: Unlock of unlocked RWMutex")
	}
	m.writer, m.wpending = false, false
	vsched.Release(&m.hW)
	m.hAll = m.hW*31 + m.hR
}

func (m *RWMutex) RLock() {
	if !vsched.Active() {
		m.n.RLock()
		return
	}
	vsched.Block("rlock", "rwmutex", &m.hW, func() bool { return !m.wpending }, func() { m.readers++ })
}

func (m *RWMutex) RUnlock() {
	if !vsched.Active() {
		m.n.RUnlock()
		return
	}
	if vsched.Aborting() {
		if m.readers > 0 {
			m.readers--
		}
		return
	}
	if m.readers <= 0 {
		panic("sync: RUnlock of unlocked RWMutex")
	}
	m.readers--
	vsched.ReleaseCommutative(&m.hR)
	m.hAll = m.hW*31 + m.hR
}

// WaitGroup -----------------------------------------------------------------------

type WaitGroup struct {
	n sync.WaitGroup
	c int
	h uint64
}

func (wg *WaitGroup) Add(d int) {
	if !vsched.Active() {
		wg.n.Add(d)
		return
	}
	wg.c += d
	if d < 0 {
		vsched.ReleaseCommutative(&wg.h)
	}
	if wg.c < 0 && !vsched.Aborting() {
		panic("sync: negative WaitGroup counter")
	}
}

func (wg *WaitGroup) Done() { wg.Add(-1) }

func (wg *WaitGroup) Wait() {
	if !vsched.Active() {
		wg.n.Wait()
		return
	}
	vsched.Block("wgwait", "waitgroup", &wg.h, func() bool { return wg.c == 0 }, nil)
}

// Once ----------------------------------------------------------------------------

type Once struct {
	n       sync.Once
	done    bool
	running bool
	h       uint64
}

func (o *Once) Do(f func()) {
	if !vsched.Active() {
		o.n.Do(f)
		return
	}
	run := false
	vsched.Block("once", "once", &o.h, func() bool { return !o.running }, func() {
		if !o.done {
			o.running, run = true, true
		}
	})
	if run {
		defer func() { o.done, o.running = true, false; vsched.Release(&o.h) }()
		f()
	}
}

// ---------------------------------------------------------------------------------
// The rest of package sync is passed through unchanged, so that any knut source that
// compiles against the real package also compiles against this one. These types carry
// no scheduling points: a goroutine blocked inside one of them is invisible to vsched
// (Cond.Wait would be reported as a deadlock of the remaining goroutines).

type (
	Pool = sync.Pool
	Map  = sync.Map
	Cond = sync.Cond
)

func NewCond(l Locker) *Cond { return sync.NewCond(l) }

func OnceFunc(f func()) func() { return sync.OnceFunc(f) }

func OnceValue[T any](f func() T) func() T { return sync.OnceValue(f) }

func OnceValues[T1, T2 any](f func() (T1, T2)) func() (T1, T2) { return sync.OnceValues(f) }

func (m *RWMutex) TryLock() bool {
	if !vsched.Active() {
		return m.n.TryLock()
	}
	vsched.Yield()
	if m.wpending || m.readers > 0 {
		return false
	}
	m.writer, m.wpending = true, true
	return true
}

func (m *RWMutex) TryRLock() bool {
	if !vsched.Active() {
		return m.n.TryRLock()
	}
	vsched.Yield()
	if m.wpending {
		return false
	}
	m.readers++
	return true
}

type rlocker RWMutex

func (r *rlocker) Lock()   { (*RWMutex)(r).RLock() }
func (r *rlocker) Unlock() { (*RWMutex)(r).RUnlock() }

// RLocker returns a Locker whose Lock/Unlock call RLock/RUnlock.
func (m *RWMutex) RLocker() Locker { return (*rlocker)(m) }

// Go is WaitGroup.Go of newer Go versions (not in go1.23's sync; harmless extra).
func (wg *WaitGroup) Go(f func()) {
	wg.Add(1)
	vsched.Go(func() {
		defer wg.Done()
		f()
	})
}
