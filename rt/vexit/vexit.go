// Package vexit replaces os.Exit in knut's cmd packages so that commands can be
// run in-process: with a handler installed Exit panics with a sentinel that the
// in-process driver recovers into an exit status; otherwise it is os.Exit.
package vexit

import "os"

// Code is the panic value used to unwind a command that called Exit.
type Code struct{ Status int }

// InProcess is set by the harness driver while a command runs in-process.
var InProcess bool

func Exit(code int) {
	if InProcess {
		panic(Code{Status: code})
	}
	os.Exit(code)
}
