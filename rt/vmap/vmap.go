// Package vmap turns Go's unspecified map iteration order into an explicit,
// controller-owned choice. The knut sources are rewritten (by govirt) so that every
// `for k, v := range m` becomes `for _, e := range vmap.Iter(m, site)`.
//
// Without a controller the order is the canonical one (keys sorted by a structural
// string that never contains addresses), so every execution is reproducible.
package vmap

import (
	"fmt"
	"reflect"
	"sort"
	"strconv"
	"strings"
	"time"
)

// Controller decides the iteration order at one dynamic range statement.
// keys are the canonical (sorted) key strings; the result is a permutation of
// 0..len(keys)-1, or nil for the canonical order.
type Controller interface {
	Order(site string, keys []string) []int
}

// Ctl is the active controller (nil: canonical order). Set by the harness only
// while no knut code is running.
var Ctl Controller

type Entry[K comparable, V any] struct {
	K K
	m map[K]V
}

func (e Entry[K, V]) Get() (V, bool) {
	v, ok := e.m[e.K]
	return v, ok
}

func (e Entry[K, V]) Has() bool {
	_, ok := e.m[e.K]
	return ok
}

type keyed[K comparable] struct {
	k K
	s string
}

// Iter returns a snapshot of the keys of m in controller-chosen order.
func Iter[K comparable, V any](m map[K]V, site string) []Entry[K, V] {
	n := len(m)
	if n == 0 {
		return nil
	}
	ks := make([]keyed[K], 0, n)
	for k := range m {
		ks = append(ks, keyed[K]{k: k})
	}
	if n > 1 {
		for i := range ks {
			ks[i].s = KeyString(ks[i].k)
		}
		sort.Slice(ks, func(i, j int) bool { return ks[i].s < ks[j].s })
		for i := 1; i < n; i++ {
			if ks[i].s == ks[i-1].s {
				panic(fmt.Sprintf("vmap: ambiguous canonical key %q at %s (type %T)", ks[i].s, site, ks[i].k))
			}
		}
	}
	res := make([]Entry[K, V], n)
	var perm []int
	if Ctl != nil && n > 1 {
		names := make([]string, n)
		for i := range ks {
			names[i] = ks[i].s
		}
		perm = Ctl.Order(site, names)
	}
	for i := range ks {
		j := i
		if perm != nil {
			j = perm[i]
		}
		res[i] = Entry[K, V]{K: ks[j].k, m: m}
	}
	return res
}

// KeyString renders a map key structurally: names and values, never addresses.
func KeyString(k any) string {
	switch x := k.(type) {
	case string:
		return x
	case int:
		return strconv.Itoa(x)
	case time.Time:
		return x.UTC().Format("2006-01-02T15:04:05.000000000")
	case fmt.Stringer:
		if v := reflect.ValueOf(k); v.Kind() == reflect.Pointer && v.IsNil() {
			return "<nil>"
		}
		return "S:" + x.String()
	}
	var b strings.Builder
	writeValue(&b, reflect.ValueOf(k), 0)
	return b.String()
}

var (
	timeType     = reflect.TypeOf(time.Time{})
	stringerType = reflect.TypeOf((*fmt.Stringer)(nil)).Elem()
)

func writeValue(b *strings.Builder, v reflect.Value, depth int) {
	if !v.IsValid() {
		b.WriteString("<invalid>")
		return
	}
	if depth > 4 {
		panic("vmap: key too deep for canonical rendering: " + v.Type().String())
	}
	t := v.Type()
	if t == timeType {
		// unexported fields: rebuild through the exported API is not possible on an
		// unaddressable value, so read the three words via reflection-free path
		b.WriteString(timeString(v))
		return
	}
	switch v.Kind() {
	case reflect.String:
		b.WriteString(strconv.Quote(v.String()))
	case reflect.Bool:
		b.WriteString(strconv.FormatBool(v.Bool()))
	case reflect.Int, reflect.Int8, reflect.Int16, reflect.Int32, reflect.Int64:
		b.WriteString(strconv.FormatInt(v.Int(), 10))
	case reflect.Uint, reflect.Uint8, reflect.Uint16, reflect.Uint32, reflect.Uint64:
		b.WriteString(strconv.FormatUint(v.Uint(), 10))
	case reflect.Float32, reflect.Float64:
		b.WriteString(strconv.FormatFloat(v.Float(), 'g', -1, 64))
	case reflect.Pointer, reflect.Interface:
		if v.IsNil() {
			b.WriteString("<nil>")
			return
		}
		if v.Kind() == reflect.Pointer && v.CanInterface() && t.Implements(stringerType) {
			b.WriteString("S:" + v.Interface().(fmt.Stringer).String())
			return
		}
		if v.Kind() == reflect.Pointer && !v.CanInterface() && t.Implements(stringerType) {
			// unexported field holding a Stringer pointer: render the pointee's fields
			writeValue(b, v.Elem(), depth+1)
			return
		}
		writeValue(b, v.Elem(), depth+1)
	case reflect.Struct:
		b.WriteString("{")
		for i := 0; i < v.NumField(); i++ {
			f := v.Field(i)
			switch f.Kind() {
			case reflect.Map, reflect.Slice, reflect.Func, reflect.Chan:
				continue // not part of the identity we need; unordered or unhashable
			}
			b.WriteString(t.Field(i).Name)
			b.WriteString("=")
			writeValue(b, f, depth+1)
			b.WriteString(";")
		}
		b.WriteString("}")
	case reflect.Array:
		b.WriteString("[")
		for i := 0; i < v.Len(); i++ {
			writeValue(b, v.Index(i), depth+1)
			b.WriteString(",")
		}
		b.WriteString("]")
	default:
		panic("vmap: unsupported key kind " + v.Kind().String() + " in " + t.String())
	}
}

func timeString(v reflect.Value) string {
	// time.Time{wall uint64, ext int64, loc *Location}: monotonic-free values used by
	// knut (dates at UTC midnight) are identified by (wall, ext).
	return "T:" + strconv.FormatUint(v.Field(0).Uint(), 10) + ":" + strconv.FormatInt(v.Field(1).Int(), 10)
}
