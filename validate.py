#!/opt/veriftools/pyvenv/bin/python
import json,sys,glob,jsonschema
es=json.load(open('/root/.vp/EVIDENCE.schema.json')); ms=json.load(open('/root/.vp/MANIFEST.schema.json'))
ok=True
try:
    jsonschema.validate(json.load(open('/verif/MANIFEST.json')), ms); print('MANIFEST ok')
except Exception as ex: print('MANIFEST:', str(ex)[:300]); ok=False
for f in sorted(glob.glob('/verif/evidence/*.json')):
    try: jsonschema.validate(json.load(open(f)), es); print(f,'ok')
    except Exception as ex: print(f, str(ex)[:300]); ok=False
sys.exit(0 if ok else 1)
